"""Clause registry, Hypothesis driver, failure capture -> replay JSON,
known-finding matching, evidence accounting.

A *clause* is one executable sentence of a property:

    Clause(name, strategy, run, quick=N, thorough=M)

`strategy` is a Hypothesis strategy that yields a JSON-serialisable *case*
(plain dicts / lists / numbers / strings; arrays via enc()/dec()).
`run(case)` evaluates the library on that case against the oracle; it raises
`Violation` (or any other exception = also a violation unless the clause says
otherwise) and returns an `Info` (non-trivial flag + class labels).

Every random choice is inside `strategy`, so the whole run is a function of
VERIF_SEED and the code under test.
"""
import hashlib
import json
import os
import sys
import time
import traceback

import numpy as np

VERIF = os.path.dirname(os.path.dirname(os.path.abspath(__file__)))
OUT = os.environ.get("VERIF_OUT") or VERIF   # evidence/ and replays/ live here (scratch runs redirect it)


class Violation(AssertionError):
    """The property does not hold on this case."""


class Skip(Exception):
    """Case outside the property's domain (counted, never a verdict)."""


class CaseTimeout(BaseException):
    """A single case ran longer than the per-case wall-clock guard. This is never a verdict: the clause is
    abandoned and the run ends as a harness error (exit 2, 'INCONCLUSIVE'), so that a library change that makes
    a call spin forever cannot hang a check indefinitely. (BaseException: clause code catching Exception lets it through.)"""


CASE_TIMEOUT_S = float(os.environ.get("VERIF_CASE_TIMEOUT", "900"))
LASTCASE = None      # file object: the case about to be evaluated is written here first, so that the parent can
#                      attribute a crash of this process (segfault in a C kernel) to the case that caused it


def note_case(clause_name, case):
    if LASTCASE is None:
        return
    try:
        LASTCASE.seek(0)
        LASTCASE.truncate()
        LASTCASE.write(json.dumps({"clause": clause_name, "case": json.loads(canon(case))}))
        LASTCASE.flush()
    except Exception:
        pass


def _alarm(signum, frame):
    raise CaseTimeout()


def require(cond, msg, **ctx):
    if not cond:
        if ctx:
            msg = msg + " | " + ", ".join("%s=%s" % (k, _short(v)) for k, v in ctx.items())
        raise Violation(msg)


def _short(v, n=300):
    s = repr(v)
    return s if len(s) <= n else s[:n] + "..."


# --------------------------------------------------------------------------
# JSON encoding of arrays

def enc(a):
    a = np.asarray(a)
    return {"__nd__": True, "dtype": str(a.dtype), "shape": list(a.shape),
            "data": a.ravel().tolist()}


def dec(o):
    if isinstance(o, dict) and o.get("__nd__"):
        return np.array(o["data"], dtype=o["dtype"]).reshape(o["shape"])
    return o


def jdefault(o):
    if isinstance(o, np.ndarray):
        return enc(o)
    if isinstance(o, (np.integer,)):
        return int(o)
    if isinstance(o, (np.floating,)):
        return float(o)
    if isinstance(o, (np.bool_,)):
        return bool(o)
    if isinstance(o, (set, frozenset)):
        return sorted(o)
    if isinstance(o, tuple):
        return list(o)
    if isinstance(o, slice):
        return {"__slice__": [o.start, o.stop, o.step]}
    return repr(o)


def canon(case):
    return json.dumps(case, sort_keys=True, default=jdefault)


def case_hash(case):
    return hashlib.sha1(canon(case).encode()).hexdigest()[:16]


# --------------------------------------------------------------------------

class Info:
    """What a clause evaluation reports back for the evidence file."""
    __slots__ = ("nontrivial", "classes", "key")

    def __init__(self, nontrivial=False, classes=(), key=None):
        self.nontrivial = bool(nontrivial)
        self.classes = tuple(classes)
        self.key = key


class Clause:
    def __init__(self, name, strategy, run, quick=200, thorough=2000,
                 doc="", exhaustive=None, stateful=None, steps=30):
        self.name = name
        self.strategy = strategy
        self.run = run
        self.quick = quick
        self.thorough = thorough
        self.doc = doc
        # exhaustive: callable(tier, shard, nshards) -> iterator of cases (thorough only unless flagged)
        self.exhaustive = exhaustive
        self.stateful = stateful
        self.steps = steps


class ClauseStats:
    def __init__(self, name):
        self.name = name
        self.evaluations = 0
        self.nt = set()
        self.classes = {}
        self.samples = []
        self.nt_samples = []
        self.skipped = 0
        self.excluded_known = {}
        self.failures = []      # list of dicts
        self.timeouts = []      # cases abandoned by the per-case wall-clock guard (inconclusive, never a verdict)
        self.exhaustive = False
        self.wall = 0.0

    def to_json(self):
        return {"clause": self.name, "evaluations": self.evaluations,
                "distinct_nontrivial": len(self.nt), "nt_hashes": sorted(self.nt),
                "classes": self.classes, "samples": self.samples,
                "nt_samples": self.nt_samples, "skipped_out_of_domain": self.skipped,
                "excluded_known": self.excluded_known, "failures": self.failures, "timeouts": self.timeouts[:3],
                "n_timeouts": len(self.timeouts),
                "exhaustive": self.exhaustive, "wall_s": round(self.wall, 2)}


def sig_of(exc):
    """(type, innermost enspara frame) bucket of a failure."""
    tb = traceback.extract_tb(exc.__traceback__)
    frame = ""
    for fr in tb:
        if "/enspara/" in fr.filename:
            frame = "%s:%s" % (fr.filename.split("/enspara/", 1)[1], fr.name)
    return "%s@%s" % (type(exc).__name__, frame)


class Known:
    """One entry of known_findings.json (status == 'open')."""

    def __init__(self, entry, matchers):
        self.entry = entry
        self.id = entry["id"]
        self.clause = entry.get("clause")
        self.fn = matchers[entry["matcher"]]

    def matches(self, clause, case, exc):
        if self.clause and self.clause != clause:
            return False
        try:
            return bool(self.fn(case, exc))
        except Exception:
            return False


def load_known(prop, matchers):
    path = os.path.join(VERIF, "known_findings.json")
    if not os.path.exists(path):
        return []
    data = json.load(open(path))
    out = []
    for e in data.get("findings", []):
        if e.get("property") == prop and e.get("status") == "open":
            out.append(Known(e, matchers))
    return out


_LAST_EVALUATED = None
RUNAWAY = False      # set when a case exhausted the shard's memory limit: the shard reports and stops (run_check.py)


def _after_memory_exhaustion():
    """The library ran into the shard's address-space limit. Freed memory does not shrink the address space (malloc
    arenas), so the harness itself would now fail to allocate: give it 2 GB of head-room ONCE, collect garbage, and let
    the shard stop after the current clause."""
    global RUNAWAY
    import gc
    gc.collect()
    if not RUNAWAY:
        RUNAWAY = True
        try:
            import resource
            soft, hard = resource.getrlimit(resource.RLIMIT_AS)
            if soft != resource.RLIM_INFINITY:
                want = soft + 2 * 2 ** 30
                if hard != resource.RLIM_INFINITY:
                    want = min(want, hard)
                resource.setrlimit(resource.RLIMIT_AS, (want, hard))
        except Exception:
            pass


def evaluate(clause, case, stats, known, budget=None):
    """Run one case; classify outcome. Returns None if OK / suppressed, or
    the exception if it is an unlisted violation."""
    stats.evaluations += 1
    note_case(clause.name, case)
    global _LAST_EVALUATED
    _LAST_EVALUATED = (clause.name, case)
    import signal
    use_alarm = CASE_TIMEOUT_S > 0 and hasattr(signal, "setitimer")
    if use_alarm:
        try:
            old = signal.signal(signal.SIGALRM, _alarm)
            signal.setitimer(signal.ITIMER_REAL, CASE_TIMEOUT_S)
        except ValueError:          # not in the main thread
            use_alarm = False
    try:
        try:
            info = clause.run(case)
        finally:
            if use_alarm:
                signal.setitimer(signal.ITIMER_REAL, 0)
                signal.signal(signal.SIGALRM, old)
    except CaseTimeout:
        stats.timeouts.append(_sample(case))
        return None
    except Skip:
        stats.skipped += 1
        return None
    except Exception as exc:   # Violation or a crash inside the library/oracle
        if isinstance(exc, MemoryError):
            _after_memory_exhaustion()
        for k in known:
            if k.matches(clause.name, case, exc):
                stats.excluded_known[k.id] = stats.excluded_known.get(k.id, 0) + 1
                return None
        return exc
    if info is None:
        info = Info()
    for c in info.classes:
        stats.classes[c] = stats.classes.get(c, 0) + 1
    if len(stats.samples) < 2:
        stats.samples.append(_sample(case))
    if info.nontrivial:
        h = case_hash(info.key if info.key is not None else case)
        if h not in stats.nt:
            stats.nt.add(h)
            if len(stats.nt_samples) < 3:
                stats.nt_samples.append(_sample(case))
    return None


def _sample(case):
    s = canon(case)
    if len(s) > 4000:
        return {"truncated_case_json": s[:4000]}
    return json.loads(s)


def drive(prop, clause, n_examples, seed, known, shrink_budget_s=90.0):
    """Drive one clause with Hypothesis. Returns ClauseStats."""
    import hypothesis
    from hypothesis import given, settings, HealthCheck, Phase
    stats = ClauseStats(clause.name)
    t0 = time.time()
    state = {"first_fail_t": None, "best": None, "best_exc": None, "first": None}

    def body(case):
        if stats.timeouts:
            return    # a case hit the wall-clock guard: abandon the clause (reported as inconclusive)
        if state["first_fail_t"] is not None and time.time() - state["first_fail_t"] > shrink_budget_s:
            return    # shrink budget used up: let Hypothesis finish quickly
        if state.get("runaway"):
            return    # the library exhausted the shard's memory limit on a case: every shrink attempt would take
                      # minutes to do the same, so the first such case is reported as it is
        exc = evaluate(clause, case, stats, known)
        if isinstance(exc, MemoryError):
            state["runaway"] = True
        if exc is not None:
            if state["first_fail_t"] is None:
                state["first_fail_t"] = time.time()
                state["first"] = json.loads(canon(case))
            state["best"] = json.loads(canon(case))
            state["best_exc"] = exc
            raise exc

    test = given(clause.strategy)(body)
    test = hypothesis.seed(seed)(test)
    test = settings(max_examples=n_examples, database=None, deadline=None,
                    derandomize=False, report_multiple_bugs=False,
                    print_blob=False,
                    suppress_health_check=[HealthCheck.too_slow, HealthCheck.data_too_large,
                                           HealthCheck.large_base_example],
                    phases=[Phase.explicit, Phase.generate, Phase.target, Phase.shrink])(test)
    try:
        test()
    except hypothesis.errors.FailedHealthCheck:
        raise
    except hypothesis.errors.Unsatisfiable:
        raise
    except BaseException as e:
        if isinstance(e, (KeyboardInterrupt, SystemExit)):
            raise
        if state["best"] is None and isinstance(e, MemoryError) and _LAST_EVALUATED and _LAST_EVALUATED[0] == clause.name:
            # memory ran out while (or right after) the library worked on a case, and the error surfaced outside the
            # evaluation (address space exhausted): that case is the one to replay in a fresh budget
            _after_memory_exhaustion()
            state["best"] = json.loads(canon(_LAST_EVALUATED[1]))
        if state["best"] is None:
            # an error that did not come from a case evaluation = harness problem
            raise
    if state["best"] is not None:
        rec = record_failure(prop, clause, state["best"], known)
        if not rec["reproduced"] and state["first"] is not None and state["first"] != state["best"]:
            # a failure that only shows with some probability (data race, heap contents) usually stops reproducing
            # once Hypothesis has shrunk the case; fall back to the first, unshrunk failing case
            rec2 = record_failure(prop, clause, state["first"], known)
            if rec2["reproduced"]:
                rec = rec2
        stats.failures.append(rec)
    stats.wall = time.time() - t0
    return stats


def drive_exhaustive(prop, clause, cases, known, max_fail=1):
    stats = ClauseStats(clause.name + ":exhaustive")
    t0 = time.time()
    for case in cases:
        if stats.timeouts:
            break
        exc = evaluate(clause, case, stats, known)
        if exc is not None:
            stats.failures.append(record_failure(prop, clause, json.loads(canon(case)), known))
            if len(stats.failures) >= max_fail:
                break
    else:
        stats.exhaustive = True
    stats.wall = time.time() - t0
    return stats


def record_failure(prop, clause, case, known):
    """Re-evaluate the (shrunk) case outside Hypothesis, write the replay file."""
    st = ClauseStats(clause.name)
    exc = None
    for _attempt in range(5):          # probabilistic failures (races) get several direct replays
        exc = evaluate(clause, case, st, known)
        if exc is not None:
            break
    msg = "did not reproduce in 5 direct replays (flaky)" if exc is None else "%s: %s" % (type(exc).__name__, exc)
    sig = sig_of(exc) if exc is not None else "flaky"
    d = os.path.join(OUT, "replays", prop)
    os.makedirs(d, exist_ok=True)
    h = case_hash(case)
    path = os.path.join(d, "%s-%s.json" % (clause.name, h))
    with open(path, "w") as f:
        json.dump({"property": prop, "clause": clause.name, "case": case,
                   "message": msg[:2000], "signature": sig}, f, indent=1, sort_keys=True, default=jdefault)
    return {"clause": clause.name, "replay": path, "message": msg[:600],
            "signature": sig, "reproduced": exc is not None}


# --------------------------------------------------------------------------
# stateful (rule-based machine) clauses

def drive_stateful(prop, clause, n_examples, seed, known, shrink_budget_s=120.0):
    """Drive a clause whose cases are operation histories produced by a Hypothesis
    RuleBasedStateMachine.  `clause.stateful(hooks)` returns the machine class; the
    machine calls hooks.done(history, info) at teardown of a successful run and
    hooks.failed(history, exc) when a step breaks the invariant (returns True when the
    failure is a listed known finding and must be swallowed).  `clause.run(case)` replays
    a recorded history ({"history": [...]}) without Hypothesis."""
    import hypothesis
    from hypothesis import settings, HealthCheck, Phase
    from hypothesis.stateful import run_state_machine_as_test
    stats = ClauseStats(clause.name)
    t0 = time.time()
    state = {"first_fail_t": None, "best": None}

    class Hooks:
        @staticmethod
        def over_budget():
            return state["first_fail_t"] is not None and time.time() - state["first_fail_t"] > shrink_budget_s

        @staticmethod
        def done(history, info):
            stats.evaluations += 1
            case = {"history": history}
            for c in info.classes:
                stats.classes[c] = stats.classes.get(c, 0) + 1
            if len(stats.samples) < 2:
                stats.samples.append(_sample(case))
            if info.nontrivial:
                h = case_hash(case)
                if h not in stats.nt:
                    stats.nt.add(h)
                    if len(stats.nt_samples) < 3:
                        stats.nt_samples.append(_sample(case))

        @staticmethod
        def failed(history, exc):
            case = json.loads(canon({"history": history}))
            for k in known:
                if k.matches(clause.name, case, exc):
                    stats.excluded_known[k.id] = stats.excluded_known.get(k.id, 0) + 1
                    return True
            if state["first_fail_t"] is None:
                state["first_fail_t"] = time.time()
            state["best"] = case
            return False

    Machine = clause.stateful(Hooks)
    Machine = hypothesis.seed(seed)(Machine)
    sett = settings(max_examples=n_examples, stateful_step_count=clause.steps, database=None, deadline=None,
                    derandomize=False, report_multiple_bugs=False, print_blob=False,
                    suppress_health_check=list(HealthCheck),
                    phases=[Phase.generate, Phase.target, Phase.shrink])
    try:
        run_state_machine_as_test(Machine, settings=sett)
    except BaseException as e:
        if isinstance(e, (KeyboardInterrupt, SystemExit)):
            raise
        if state["best"] is None:
            raise
    if state["best"] is not None:
        stats.failures.append(record_failure(prop, clause, state["best"], known))
    stats.wall = time.time() - t0
    return stats
