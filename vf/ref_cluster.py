"""Shared generators and reference models for the clustering properties
(C01 self-consistency, C02 k-centers rule, C09 k-medoids cost history,
C10 nearest-center assignment, C14 MPI-striped clustering).

Nothing here imports enspara and importing this module has no side effects;
everything is plain numpy (float64) or a Hypothesis strategy.

Contents
--------
data sets      ``dataset(...)`` = ``dataset_shape`` + ``dataset_sites`` (strategies ->
               JSON spec), ``build_points(spec)``
               (spec -> ndarray).  Points are DISTINCT BY CONSTRUCTION: they are
               distinct sites of an integer lattice, optionally moved by a jitter
               of less than a quarter lattice step (float dtypes only).
metrics        ``METRICS``, ``ref_dist``, ``ref_dist_matrix`` (float64 numpy
               oracles), ``library_metric`` (what to hand to enspara: a metric
               name, or the user callable ``chebyshev_callable``).
tolerances     ``tol(dtype, step)`` -> (rtol, atol); ``close``, ``not_less``.
clustering     ``ref_assign`` (nearest center, first minimiser), ``ref_cost``
               (mean squared distance to the nearest center), ``ref_radius``,
               ``is_nearest`` / ``check_result`` style predicates are left to
               the checks; ``ref_pam_sweep`` (brute-force PAM sweep used ONLY to
               classify cases: accept/reject history and which of the three
               re-assignment branches an accepted proposal exercised).
misc           ``pinned_global_rng`` context manager, ``max_distinct_k``,
               ``single_thread_kernels``.
"""
import contextlib

import numpy as np
from hypothesis import strategies as st

# --------------------------------------------------------------------------
# dtypes / metrics

FLOAT_DTYPES = ("float64", "float32")
INT_DTYPES = ("int8", "int16", "int32", "int64")
DTYPES = FLOAT_DTYPES + INT_DTYPES          # what enspara's libdist kernels accept (no unsigned, no float16)
LAYOUTS = ("C", "F", "strided")
# 'chebyshev' and 'sqeuclid' are passed to the library as user callables; 'sqeuclid' (squared euclidean, the callable
# the library's own tests use) does NOT obey the triangle inequality, so callers must not ask for the shortcut with it
METRICS = ("euclidean", "manhattan", "chebyshev", "sqeuclid")
TRUE_METRICS = ("euclidean", "manhattan", "chebyshev")
# 'euclid_eps' imitates float32 rmsd kernels: the distance of a frame to itself is tiny but not exactly zero
# (sqrt(d^2 + 1e-10) -> 1e-5), which the library explicitly tolerates (its warm-start assertion is `< 0.001`)
METRICS_SELF_NONZERO = METRICS + ("euclid_eps",)


def chebyshev_callable(X, y):
    """User-supplied metric handed to the library (signature metric(X, y) ->
    shape (len(X),) float64).  Works for every dtype (no integer wrap-around)
    and for an empty X."""
    X = np.asarray(X, dtype=np.float64)
    y = np.asarray(y, dtype=np.float64)
    if X.shape[0] == 0:
        return np.zeros(0, dtype=np.float64)
    return np.abs(X - y[None, :]).max(axis=1)


def sqeuclid_callable(X, y):
    """Squared euclidean distance as a user-supplied callable (not a metric: no triangle inequality)."""
    X = np.asarray(X, dtype=np.float64)
    y = np.asarray(y, dtype=np.float64)
    if X.shape[0] == 0:
        return np.zeros(0, dtype=np.float64)
    d = X - y[None, :]
    return np.sum(d * d, axis=1)


def euclid_eps_callable(X, y):
    X = np.asarray(X, dtype=np.float64)
    y = np.asarray(y, dtype=np.float64)
    if X.shape[0] == 0:
        return np.zeros(0, dtype=np.float64)
    d = X - y[None, :]
    return np.sqrt(np.sum(d * d, axis=1) + 1e-10)


def library_metric(name):
    """The object to pass as `metric` / `distance_method` to enspara."""
    if name in ("euclidean", "manhattan"):
        return name
    if name == "chebyshev":
        return chebyshev_callable
    if name == "sqeuclid":
        return sqeuclid_callable
    if name == "euclid_eps":
        return euclid_eps_callable
    raise ValueError(name)


def ref_dist(metric, X, y):
    """Reference distances (float64) from every row of X to the point y."""
    X = np.asarray(X).astype(np.float64)
    y = np.asarray(y).astype(np.float64)
    diff = X - y.reshape(1, -1)
    if metric == "euclidean":
        return np.sqrt(np.sum(diff * diff, axis=1))
    if metric == "manhattan":
        return np.sum(np.abs(diff), axis=1)
    if metric == "chebyshev":
        return np.max(np.abs(diff), axis=1) if diff.shape[0] else np.zeros(0)
    if metric == "sqeuclid":
        return np.sum(diff * diff, axis=1)
    if metric == "euclid_eps":
        return np.sqrt(np.sum(diff * diff, axis=1) + 1e-10)
    raise ValueError(metric)


def ref_dist_matrix(metric, X, C):
    """(len(X), len(C)) matrix of reference distances; C is a sequence of points."""
    C = [np.asarray(c) for c in C]
    out = np.empty((len(X), len(C)), dtype=np.float64)
    for j, c in enumerate(C):
        out[:, j] = ref_dist(metric, X, c)
    return out


def tol(dtype, step=1.0):
    """(rtol, atol) for comparing a library distance with a reference one.

    float32 data: the kernels subtract and square in float32 (relative error
    ~1e-7 of each term) -> rtol 1e-5.  Everything else is computed in double
    (observed error <= 4 ulp ~ 1e-15) -> rtol 1e-11.  atol only absorbs
    denormal dust near zero; exact zeros compare equal anyway."""
    rtol = 1e-5 if str(dtype) == "float32" else 1e-11
    return rtol, 1e-12 * float(step)


def close(a, b, rtol, atol):
    a = np.asarray(a, dtype=np.float64)
    b = np.asarray(b, dtype=np.float64)
    return np.abs(a - b) <= atol + rtol * np.maximum(np.abs(a), np.abs(b))


def not_less(a, b, rtol, atol):
    """elementwise a >= b up to tolerance (a may fall short of b by rounding only)."""
    a = np.asarray(a, dtype=np.float64)
    b = np.asarray(b, dtype=np.float64)
    return a >= b - (atol + rtol * np.maximum(np.abs(a), np.abs(b)))


# --------------------------------------------------------------------------
# data sets of distinct points

def _zigzag(g):
    """0,1,2,3,4,... -> 0,1,-1,2,-2,...  (small ids = sites near the origin)."""
    g = int(g)
    return (g + 1) // 2 if g % 2 else -(g // 2)


def _decode(idx, base, d):
    """Site id -> d zig-zag digits in base `base` (a bijection onto the cube)."""
    out = []
    for _ in range(d):
        out.append(_zigzag(idx % base))
        idx //= base
    return out


# uniform layout: half-width of the cube per dimension (keeps |coord| <= 60 so that
# int8 data, also with an integer step of 2, never leaves its range)
_UNIFORM_R = {1: 60, 2: 12, 3: 4}
_BLOB_W = 3          # blob offsets in [-3, 3]^d
_BLOB_SPACING = 20   # blob centres on a coarse grid of this pitch, coarse coords in [-2, 2]^d


def _uniform_r(d):
    return _UNIFORM_R.get(d, 2)


def _capacity(kind, d, nb):
    """How many distinct sites the layout offers (the strategies use at most ~half of them)."""
    if kind == "uniform":
        return (2 * _uniform_r(d) + 1) ** d
    return nb * (2 * _BLOB_W + 1) ** d


def _usable(kind, d, nb):
    """Largest n the strategies draw for a layout: half (uniform) / 60 % (blobs) of the sites,
    so that unique-list generation never struggles."""
    cap = _capacity(kind, d, nb)
    return cap // 2 if kind == "uniform" else (6 * cap) // 10


@st.composite
def dataset_shape(draw, max_n=40, max_d=4, min_n=1, dtypes=DTYPES, layouts=LAYOUTS,
                  layout_kinds=("uniform", "blobs")):
    """First stage of `dataset`: everything except the sites themselves.

    Split in two so that a check can draw its (small, categorical) configuration
    BEFORE the bulky list of sites: Hypothesis spends its entropy budget from
    the front, and choices drawn after a long list come out heavily skewed
    towards their first alternative."""
    d = draw(st.integers(1, max_d))
    kind = draw(st.sampled_from(list(layout_kinds)))
    # float dtypes are listed twice: they carry the jitter / scale dimensions
    dtype = draw(st.sampled_from(list(dtypes) + [t for t in dtypes if t in FLOAT_DTYPES]))
    nb = draw(st.integers(2, min(5, 5 ** d))) if kind == "blobs" else 0
    # a caller-imposed minimum size may not fit a low-dimensional layout: widen it deterministically
    while _usable(kind, d, nb) < min_n and d < max_d:
        d += 1
    if _usable(kind, d, nb) < min_n:
        kind, nb = "uniform", 0
        while _usable(kind, d, nb) < min_n and d > 1:
            d -= 1          # the 1-D cube is the roomiest small layout (121 sites)
    if _usable(kind, d, nb) < min_n:
        raise ValueError("min_n=%d does not fit any layout with max_d=%d" % (min_n, max_d))
    hi = max(min_n, min(max_n, _usable(kind, d, nb)))
    # size classes keep tiny sets (where every index is special) and full-size sets both frequent
    cls = draw(st.sampled_from(["small", "any", "large", "tiny", "small", "any", "large"]))
    if cls == "tiny":
        n = draw(st.integers(min_n, max(min_n, min(hi, 4))))
    elif cls == "small":
        n = draw(st.integers(min(hi, max(min_n, 3)), max(min_n, min(hi, 12))))
    elif cls == "large":
        n = draw(st.integers(max(min_n, hi // 2), hi))
    else:
        n = draw(st.integers(min_n, hi))
    if dtype in FLOAT_DTYPES:
        step = draw(st.sampled_from([1.0, 0.37, 1e-3, 250.0]))
        jitter = draw(st.integers(0, 2 ** 31 - 1)) if draw(st.sampled_from([True, False, True])) else None
    else:
        step = draw(st.sampled_from([1, 2]))
        jitter = None
    layout = draw(st.sampled_from(list(layouts)))
    # read-only data (np.load(..., mmap_mode='r'), a view of somebody else's array): clustering only reads X
    readonly = draw(st.sampled_from([False, False, False, True]))
    return {"n": n, "d": d, "nb": nb, "step": step, "jitter": jitter, "dtype": dtype,
            "layout": layout, "kind": kind, "readonly": readonly}


@st.composite
def dataset_sites(draw, shape):
    """Second stage of `dataset`: draw the n distinct lattice sites for `shape`
    and return the complete spec."""
    n, d, kind, nb = shape["n"], shape["d"], shape["kind"], shape["nb"]
    if kind == "uniform":
        base = 2 * _uniform_r(d) + 1
        ids = draw(st.lists(st.integers(0, base ** d - 1), min_size=n, max_size=n, unique=True))
        sites = [_decode(i, base, d) for i in ids]
    else:
        blob_ids = draw(st.lists(st.integers(0, 5 ** d - 1), min_size=nb, max_size=nb, unique=True))
        blob_sites = [[_BLOB_SPACING * c for c in _decode(b, 5, d)] for b in blob_ids]
        obase = 2 * _BLOB_W + 1
        pairs = draw(st.lists(st.integers(0, nb * obase ** d - 1), min_size=n, max_size=n, unique=True))
        sites = []
        for p in pairs:
            b, o = p % nb, p // nb       # distinct p -> distinct (blob, offset); blobs do not overlap (20 > 2*3)
            off = _decode(o, obase, d)
            sites.append([blob_sites[b][j] + off[j] for j in range(d)])
    return {"sites": sites, "step": shape["step"], "jitter": shape["jitter"], "dtype": shape["dtype"],
            "layout": shape["layout"], "kind": kind, "readonly": bool(shape.get("readonly"))}


@st.composite
def dataset(draw, **kw):
    """Strategy for a JSON spec of a data set of DISTINCT points.

    spec = {"sites": [[int]*d]*n, "step": number, "jitter": None|int seed,
            "dtype": str, "layout": "C"|"F"|"strided", "kind": "uniform"|"blobs"}

    * "uniform": n distinct sites of the cube [-R, R]^d (ids drawn as a unique
      list, decoded bijectively -> distinct by construction; Hypothesis' bias to
      small ids puts many points on a tight sub-lattice, which gives distance
      ties when there is no jitter).
    * "blobs": 2..5 blob centres on a coarse grid (pitch 20) plus distinct
      offsets in [-3, 3]^d around them: tight groups and isolated outliers, the
      geometry that drives the k-medoids update through all its branches.
    * float dtypes: coordinates = (site + jitter) * step with |jitter| < 0.25,
      step in {1, 0.37, 1e-3, 250}; integer dtypes: site * (1 or 2).

    Keyword arguments as for `dataset_shape` (max_n, max_d, min_n, dtypes,
    layouts, layout_kinds).  Checks that draw further configuration should use
    the two stages directly: shape -> own configuration -> sites.
    """
    return draw(dataset_sites(draw(dataset_shape(**kw))))


def build_points(spec):
    """Materialise a `dataset` spec as an (n, d) ndarray of the requested dtype
    and memory layout.  Deterministic; rows are pairwise distinct."""
    sites = np.array(spec["sites"], dtype=np.int64).reshape(len(spec["sites"]), -1)
    dtype = np.dtype(spec["dtype"])
    if dtype.kind == "f":
        vals = sites.astype(np.float64)
        if spec.get("jitter") is not None:
            rng = np.random.RandomState(int(spec["jitter"]))
            # row-major stream: shrinking away trailing points keeps the others' jitter
            vals = vals + rng.uniform(-0.24, 0.24, size=vals.shape)
        # optional common offset (a molecule far from the origin of its box): differences stay exactly representable,
        # but any formula that expands |x - y|^2 into |x|^2 - 2xy + |y|^2 cancels catastrophically
        vals = (vals * float(spec["step"]) + float(spec.get("offset", 0.0))).astype(dtype)
    else:
        vals = (sites * int(spec["step"])).astype(dtype)
    layout = spec.get("layout", "C")
    if layout == "C":
        X = np.ascontiguousarray(vals)
    elif layout == "F":
        X = np.asfortranarray(vals)
    elif layout == "strided":
        big = np.zeros((2 * vals.shape[0], 2 * vals.shape[1] + 1), dtype=dtype)
        X = big[::2, 1::2]
        X[...] = vals
        assert X.shape == vals.shape
    else:
        raise ValueError(layout)
    if spec.get("readonly"):
        if X.base is not None and isinstance(X.base, np.ndarray):
            X.base.flags.writeable = False
        X.flags.writeable = False
    return X


def assert_distinct(X):
    """Cheap guard used by the checks (never expected to fire)."""
    rows = {tuple(r) for r in np.asarray(X).tolist()}
    if len(rows) != len(X):
        raise AssertionError("generator produced duplicate points")


# --------------------------------------------------------------------------
# reference clustering models

def ref_assign(metric, X, centers):
    """Nearest-center assignment: (labels int64, distances float64); first
    minimiser wins.  `centers` is a sequence of points (not indices)."""
    D = ref_dist_matrix(metric, X, centers)
    lab = np.argmin(D, axis=1).astype(np.int64)
    return lab, D[np.arange(len(X)), lab]


def ref_cost(metric, X, centers):
    """Mean over frames of the squared distance to the nearest of `centers`."""
    _, dist = ref_assign(metric, X, centers)
    return float(np.mean(dist * dist))


def ref_radius(metric, X, centers):
    """Covering radius: largest distance of a frame to its nearest center."""
    _, dist = ref_assign(metric, X, centers)
    return float(dist.max())


def ref_diameter(metric, X):
    """Largest pairwise distance (0 for a single point)."""
    return float(max(ref_dist(metric, X, x).max() for x in X))


def ref_pam_sweep(metric, X, center_inds, proposals):
    """One brute-force PAM sweep, for CLASSIFYING cases only.

    For each center id in order: replace it by the proposed frame, recompute
    every distance from scratch, accept iff the mean squared distance drops.
    Returns (new_center_inds, log) where log is one dict per center id with
    'accepted', and - for what the incremental algorithm would have seen -
    the sizes of its three branches: 'dn' (frames strictly closer to the
    proposal), 'dn_other' (those of them owned by another center before),
    'up_other' (not closer, owned by another center), 'up_this' (not closer,
    owned by the replaced center), 'up_this_noncenter' (the latter without the
    replaced center itself) and 'up_this_moved' (those that end up with a
    center other than the proposal).
    """
    cinds = [int(c) for c in center_inds]
    log = []
    for cid in range(len(cinds)):
        p = int(proposals[cid])
        lab, dist = ref_assign(metric, X, [X[i] for i in cinds])
        old_cost = float(np.mean(dist * dist))
        dp = ref_dist(metric, X, X[p])
        cand = list(cinds)
        cand[cid] = p
        nlab, ndist = ref_assign(metric, X, [X[i] for i in cand])
        new_cost = float(np.mean(ndist * ndist))
        dn = dist > dp
        up_this = (~dn) & (lab == cid)
        entry = {"cid": cid, "proposal": p, "accepted": bool(new_cost < old_cost),
                 "margin": abs(new_cost - old_cost) / max(old_cost, new_cost, 1e-300),
                 "dn": int(dn.sum()), "dn_other": int((dn & (lab != cid)).sum()),
                 "up_other": int(((~dn) & (lab != cid)).sum()),
                 "up_this": int(up_this.sum()),
                 "up_this_noncenter": int(up_this.sum()) - int(bool(up_this[cinds[cid]])),
                 "up_this_moved": int((up_this & (nlab != cid)).sum())}
        log.append(entry)
        if entry["accepted"]:
            cinds = cand
    return cinds, log


def branch_classes(logs):
    """Evidence classes from a list of ref_pam_sweep logs (all sweeps of a case)."""
    acc = [e for e in logs if e["accepted"]]
    out = []
    if any(e["dn"] > 0 for e in acc):
        out.append("pam_branch=closer_to_proposal")
    if any(e["dn_other"] > 0 for e in acc):
        out.append("pam_branch=closer_taken_from_other_cluster")
    if any(e["up_other"] > 0 for e in acc):
        out.append("pam_branch=farther_owned_by_other")
    if any(e["up_this_noncenter"] > 0 for e in acc):
        out.append("pam_branch=farther_owned_by_replaced")
    if any(e["up_this_moved"] > 0 for e in acc):
        out.append("pam_branch=farther_owned_by_replaced_moves_away")
    return out


# --------------------------------------------------------------------------
# misc helpers

def single_thread_kernels():
    """Limit every loaded OpenMP runtime to one thread (call AFTER importing
    enspara.cluster).  The clustering checks run thousands of tiny distance
    calls per second in several shard processes; with the default of one
    thread per core each call pays a fork/join that is orders of magnitude
    slower than the arithmetic and the shards oversubscribe the machine.
    Thread count is C13's dimension, not a dimension of the clustering
    properties.  Returns the threadpoolctl limiter (kept alive by the caller)."""
    import threadpoolctl
    return threadpoolctl.threadpool_limits(limits=1, user_api="openmp")


def max_distinct_k(n, floor=1e-3):
    """Largest k such that k uniform draws with replacement from n frames are
    pairwise distinct with probability >= floor.  Cold-start k-medoids redraws
    its random initial centers until they are distinct; this keeps the expected
    number of redraws below 1/floor."""
    p = 1.0
    k = 0
    while k < n:
        p *= (n - k) / n
        if p < floor:
            break
        k += 1
    return max(1, k)


@contextlib.contextmanager
def pinned_global_rng(seed):
    """Pin numpy's hidden entropy for the duration of one library call.

    `np.random.seed(seed)` fixes the legacy global RandomState (what sklearn's
    check_random_state(None) returns) and `np.random.default_rng()` called
    WITHOUT a seed is redirected to default_rng(seed).  Needed only for entry
    points that accept no random_state (KMedoids.fit) so that a failing case
    replays; state is restored afterwards."""
    saved = np.random.get_state()
    orig = np.random.default_rng

    def pinned(seed_arg=None, **kw):
        if "seed" in kw:                       # the library calls default_rng(seed=...)
            seed_arg = kw.pop("seed")
        return orig(seed if seed_arg is None else seed_arg, **kw)

    np.random.seed(int(seed) % (2 ** 32))
    np.random.default_rng = pinned
    try:
        yield
    finally:
        np.random.default_rng = orig
        np.random.set_state(saved)
