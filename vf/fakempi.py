"""In-process double for mpi4py (no MPI runtime exists in the sandbox).

A *world* of N ranks is N Python threads under a baton scheduler: exactly one rank
runs at a time; a rank runs until it blocks in a collective (or finishes); the next
rank to run is taken from a schedule drawn by Hypothesis, so the arrival order of
ranks at every collective is a generated dimension.  A collective completes when all
N ranks have arrived; the double verifies that every rank called the *same* collective
with the *same* root (anything else is a deadlock / MPI error in a real run) and that
no rank finished while others still wait.

Lower-case methods (bcast, allgather, allreduce) pass pickled copies (mpi4py object
semantics); upper-case Bcast fills the receivers' buffers in place and checks that
shapes/dtypes are compatible, as a real MPI_Bcast requires.

`install()` puts the double into sys.modules as `mpi4py` / `mpi4py.MPI` *before*
enspara is imported; enspara.mpi then binds comm/rank/size to it.  Outside a running
world (main thread) the communicator behaves as a world of size 1.
"""
import pickle
import sys
import threading
import types

import numpy as np


class WorldError(Exception):
    """Protocol violation: mismatched collectives, deadlock, buffer mismatch."""


class _Abort(BaseException):
    pass


class _Op:
    def __init__(self, name):
        self.name = name

    def __repr__(self):
        return "MPI." + self.name


SUM = _Op("SUM")
MAX = _Op("MAX")
MIN = _Op("MIN")

_tls = threading.local()


def _copy(o):
    return pickle.loads(pickle.dumps(o, protocol=pickle.HIGHEST_PROTOCOL))


class World:
    def __init__(self, size, schedule=None):
        self.size = size
        self.schedule = list(schedule or [0])
        self._sp = 0
        self.sems = [threading.Semaphore(0) for _ in range(size)]
        self.main = threading.Semaphore(0)
        self.state = ["ready"] * size
        self.pending = {}
        self.result = {}
        self.returns = [None] * size
        self.errors = [None] * size
        self.aborted = False
        self.log = []            # (collective, root, arrival order)
        self.counts = {}

    def _next(self, k):
        v = self.schedule[self._sp % len(self.schedule)]
        self._sp += 1
        return v % k

    # ---- rank side ---------------------------------------------------------
    def _collective(self, name, root, payload):
        rank = _tls.rank
        self.pending[rank] = (name, root, payload)
        self.state[rank] = "waiting"
        self.log_arrival(rank)
        self.main.release()
        self.sems[rank].acquire()
        if self.aborted:
            raise _Abort()
        return self.result.pop(rank)

    def log_arrival(self, rank):
        if not self.log or self.log[-1][2] is None or len(self.log[-1][2]) == self.size:
            self.log.append([self.pending[rank][0], self.pending[rank][1], []])
        self.log[-1][2].append(rank)

    def _thread(self, rank, fn):
        _tls.rank = rank
        _tls.world = self
        self.sems[rank].acquire()
        try:
            if self.aborted:
                raise _Abort()
            self.returns[rank] = fn(rank)
            self.state[rank] = "done"
        except _Abort:
            self.state[rank] = "aborted"
        except BaseException as e:     # noqa
            self.errors[rank] = e
            self.state[rank] = "failed"
        finally:
            _tls.world = None
            self.main.release()

    # ---- scheduler -----------------------------------------------------------
    def run(self, fn):
        threads = [threading.Thread(target=self._thread, args=(r, fn), daemon=True) for r in range(self.size)]
        for t in threads:
            t.start()
        problem = None
        while True:
            if any(s == "failed" for s in self.state):
                break
            runnable = [r for r in range(self.size) if self.state[r] == "ready"]
            if not runnable:
                waiting = [r for r in range(self.size) if self.state[r] == "waiting"]
                if not waiting:
                    break
                if len(waiting) < self.size:
                    done = [r for r in range(self.size) if self.state[r] == "done"]
                    problem = WorldError("deadlock: ranks %s wait in %s while ranks %s already returned" %
                                         (waiting, sorted(set(self.pending[r][0] for r in waiting)), done))
                    break
                try:
                    self._complete()
                except WorldError as e:
                    problem = e
                    break
                continue
            r = runnable[self._next(len(runnable))]
            self.state[r] = "running"
            self.sems[r].release()
            self.main.acquire()
            if self.state[r] == "running":       # cannot happen: thread always sets a state before releasing main
                self.state[r] = "ready"
        # unwind whatever is still parked
        self.aborted = True
        for r in range(self.size):
            if self.state[r] in ("waiting", "ready"):
                self.sems[r].release()
        for t in threads:
            t.join(timeout=30)
        if problem is not None:
            raise problem
        for r in range(self.size):
            if self.errors[r] is not None:
                raise self.errors[r]
        return self.returns

    def _complete(self):
        names = set((v[0], v[1]) for v in self.pending.values())
        if len(names) != 1:
            raise WorldError("ranks disagree on the collective: %s" %
                             {r: (v[0], v[1]) for r, v in sorted(self.pending.items())})
        name, root = next(iter(names))
        self.counts[name] = self.counts.get(name, 0) + 1
        P = {r: v[2] for r, v in self.pending.items()}
        n = self.size
        if root is not None and not (0 <= root < n):
            raise WorldError("%s with root=%r in a world of size %d" % (name, root, n))
        if name == "bcast":
            for r in range(n):
                self.result[r] = P[root] if r == root else _copy(P[root])
        elif name == "Bcast":
            src = np.asarray(P[root])
            for r in range(n):
                if r != root:
                    dst = P[r]
                    if not isinstance(dst, np.ndarray):
                        raise WorldError("Bcast receive buffer on rank %d is not an ndarray (%s)" % (r, type(dst)))
                    if dst.shape != src.shape or dst.dtype != src.dtype:
                        raise WorldError("Bcast buffer mismatch: root %d has %s%s, rank %d has %s%s" %
                                         (root, src.dtype, src.shape, r, dst.dtype, dst.shape))
                    if not dst.flags.writeable:
                        raise WorldError("Bcast receive buffer on rank %d is read-only" % r)
                    dst[...] = src
                self.result[r] = None
        elif name == "allgather":
            for r in range(n):
                self.result[r] = [_copy(P[k]) for k in range(n)]
        elif name == "allreduce":
            ops = set(id(v[0]) for v in P.values())
            if len(ops) != 1:
                raise WorldError("ranks disagree on the allreduce op")
            op = P[0][0]
            vals = [P[k][1] for k in range(n)]
            if op is SUM:
                acc = _copy(vals[0])
                for v in vals[1:]:
                    acc = acc + v
            elif op is MAX:
                acc = _copy(vals[0])
                for v in vals[1:]:
                    acc = np.maximum(acc, v) if isinstance(acc, np.ndarray) else max(acc, v)
            elif op is MIN:
                acc = _copy(vals[0])
                for v in vals[1:]:
                    acc = np.minimum(acc, v) if isinstance(acc, np.ndarray) else min(acc, v)
            else:
                raise WorldError("unsupported reduce op %r" % (op,))
            for r in range(n):
                self.result[r] = _copy(acc)
        elif name in ("barrier",):
            for r in range(n):
                self.result[r] = None
        else:
            raise WorldError("unknown collective " + name)
        self.pending.clear()
        for r in range(n):
            self.state[r] = "ready"


class Comm:
    """COMM_WORLD double."""

    def _world(self):
        return getattr(_tls, "world", None)

    def Get_rank(self):
        return _tls.rank if self._world() is not None else 0

    def Get_size(self):
        w = self._world()
        return w.size if w is not None else 1

    def bcast(self, obj, root=0):
        w = self._world()
        if w is None:
            if root != 0:
                raise WorldError("bcast root %r in a world of size 1" % (root,))
            return obj
        return w._collective("bcast", int(root), obj)

    def Bcast(self, buf, root=0):
        w = self._world()
        if w is None:
            if root != 0:
                raise WorldError("Bcast root %r in a world of size 1" % (root,))
            return None
        return w._collective("Bcast", int(root), buf)

    def allgather(self, obj):
        w = self._world()
        if w is None:
            return [obj]
        return w._collective("allgather", None, obj)

    def allreduce(self, obj, op=SUM):
        w = self._world()
        if w is None:
            return obj
        return w._collective("allreduce", None, (op, obj))

    def Barrier(self):
        w = self._world()
        if w is None:
            return None
        return w._collective("barrier", None, None)

    barrier = Barrier

    def Abort(self, errorcode=0):
        raise WorldError("MPI Abort called")


COMM_WORLD = Comm()


def install():
    pkg = types.ModuleType("mpi4py")
    mod = types.ModuleType("mpi4py.MPI")
    mod.COMM_WORLD = COMM_WORLD
    mod.SUM = SUM
    mod.MAX = MAX
    mod.MIN = MIN
    pkg.MPI = mod
    pkg.__path__ = []
    sys.modules["mpi4py"] = pkg
    sys.modules["mpi4py.MPI"] = mod


def run_world(size, fn, schedule=None):
    """Run fn(rank) on `size` ranks; returns (list of per-rank results, world)."""
    w = World(size, schedule)
    res = w.run(fn)
    return res, w
