"""Reference models for C02 (k-centers / Gonzalez farthest-first traversal).

Everything here is plain float64 numpy, independent of enspara's libdist and
of enspara.cluster: metrics, pairwise tables, a literal replay of the greedy
rule, the exhaustive discrete k-center optimum, and the construction of radius
cutoffs that are guaranteed to lie far from every value the covering radius
can possibly take (midpoints between well separated consecutive values of the
set of all frame<->candidate-center distances).
"""
import itertools

import numpy as np

# ---------------------------------------------------------------- metrics

def _f64(a):
    return np.asarray(a, dtype=np.float64)


def ref_dist(metric, A, y):
    """Distances between every row of A and the point y, in float64."""
    A = _f64(A)
    y = _f64(y)
    if A.ndim == 1:
        A = A.reshape(1, -1)
    diff = np.abs(A - y[None, :])
    if metric in ("euclidean",):
        return np.sqrt((diff * diff).sum(axis=1))
    if metric in ("manhattan", "cityblock"):
        return diff.sum(axis=1)
    if metric == "chebyshev":
        return diff.max(axis=1) if diff.shape[1] else np.zeros(len(A))
    if metric == "sqrt_l1":          # snowflake of a metric is a metric
        return np.sqrt(diff.sum(axis=1))
    if metric == "hamming":
        return (diff != 0).sum(axis=1) / float(diff.shape[1])
    raise ValueError(metric)


def columns(metric, X, pts):
    """(n, len(pts)) table: distance of every frame to every point in pts."""
    X = _f64(X)
    pts = _f64(pts).reshape(-1, X.shape[1])
    out = np.empty((len(X), len(pts)), dtype=np.float64)
    for j in range(len(pts)):
        out[:, j] = ref_dist(metric, X, pts[j])
    return out


def pairwise(metric, X):
    return columns(metric, X, X)


# ---------------------------------------------------------------- greedy replay

def nearest_assign(cols):
    """Label/distance of every frame to the nearest column; first column wins
    ties (the rule `dist < distances` of the code under test)."""
    n, m = cols.shape
    lab = np.zeros(n, dtype=int)
    dmin = np.full(n, np.inf)
    for j in range(m):
        upd = cols[:, j] < dmin
        dmin[upd] = cols[upd, j]
        lab[upd] = j
    return lab, dmin


def greedy(D, init_cols=None):
    """Literal farthest-first traversal until the covering radius is zero.

    D: (n, n) pairwise frame distances. init_cols: (n, m0) distances of the
    frames to the supplied initial centers, or None for a cold start.
    Returns (order, radii): order = frame indices chosen after the initial
    centers; radii[j] = covering radius with j centers *in total*
    (radii[0] = inf for the cold start; entries below m0 are None)."""
    n = len(D)
    if init_cols is None or init_cols.shape[1] == 0:
        m0 = 0
        dmin = np.full(n, np.inf)
    else:
        m0 = init_cols.shape[1]
        dmin = init_cols.min(axis=1)
    radii = [None] * m0 + [float(dmin.max())]
    order = []
    while radii[-1] > 0 and len(order) < n:
        i = int(np.argmax(dmin))
        order.append(i)
        dmin = np.minimum(dmin, D[:, i])
        radii.append(float(dmin.max()))
    return order, radii


def path_radii(cols):
    """radii[j] (j = 0..m) of the covering radius using the first j columns."""
    n, m = cols.shape
    dmin = np.full(n, np.inf)
    out = [np.inf]
    for j in range(m):
        dmin = np.minimum(dmin, cols[:, j])
        out.append(float(dmin.max()))
    return out


# ---------------------------------------------------------------- optimum

def opt_radius(D, k):
    """Exhaustive discrete k-center optimum: min over all k-subsets S of the
    frames of max_t min_{s in S} D[t, s]."""
    n = len(D)
    k = min(k, n)
    if k >= n:
        return 0.0
    combs = np.array(list(itertools.combinations(range(n), k)), dtype=int)   # (c, k)
    best = np.inf
    # chunk to bound memory
    for s in range(0, len(combs), 2048):
        c = combs[s:s + 2048]
        r = D[:, c].min(axis=2).max(axis=0)       # (n, c, k) -> (n, c) -> (c,)
        best = min(best, float(r.min()))
    return best


# ---------------------------------------------------------------- cutoffs

def safe_midpoints(values, mingap):
    """Midpoints between consecutive groups of `values` that are separated by
    more than `mingap`. Every returned number is at least mingap/2 away from
    every value, so no comparison `radius > cutoff` can depend on rounding."""
    v = np.unique(_f64(values)[np.isfinite(_f64(values))])
    out = []
    for a, b in zip(v[:-1], v[1:]):
        if b - a > mingap:
            out.append(float((a + b) / 2.0))
    return out


def scale_of(D, extra=None):
    s = float(D.max()) if D.size else 0.0
    if extra is not None and extra.size:
        s = max(s, float(extra.max()))
    return s if s > 0 else 1.0
