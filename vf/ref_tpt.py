"""Shared generators and reference models for C07 (committors / MFPTs) and
C08 (reactive flux).  Nothing in here calls enspara.

A *chain case* is JSON: {"n", "kind", "M": n x n ints (0 = no edge),
"E": n x n ints (decimal exponents, weight = M * 10**-E) or None}.
The transition matrix is T = W / rowsum(W).  All chains are irreducible by
construction (complete support, or a Hamiltonian cycle / spanning tree is
always part of the support).
"""
import warnings

import numpy as np
import scipy.sparse as sp
from hypothesis import strategies as st

# --------------------------------------------------------------------------
# containers

DENSE = ["ndarray", "ndarray_F"]
SPARSE = ["csr", "csc", "coo", "lil", "dok", "dia", "bsr", "csr_expl0", "coo_dup", "csr_array", "coo_array", "csr_idx64", "csc_unsorted"]
CONTAINERS = DENSE + SPARSE


def to_container(T, name):
    """Build a fresh container holding exactly the values of T."""
    T = np.array(T, dtype=np.float64)
    if name == "ndarray":
        return np.ascontiguousarray(T)
    if name == "ndarray_F":
        return np.asfortranarray(T)
    if name in ("csr", "csc", "coo", "lil", "dok", "dia", "bsr"):
        with warnings.catch_warnings():
            warnings.simplefilter("ignore")
            return getattr(sp, name + "_matrix")(T)
    if name == "csr_expl0":
        # csr that stores every entry, zeros included
        n = T.shape[0]
        r, c = np.divmod(np.arange(n * n), n)
        m = sp.csr_matrix((T.ravel().copy(), (r, c)), shape=T.shape)
        return m
    if name == "coo_dup":
        # coo in which every second non-zero is stored as two entries, a quarter and three quarters of the value
        # (exact in binary; duplicates are summed by scipy). Splitting only some entries, unevenly, matters: a matrix
        # whose entries all lose the same fraction has the same stationary vector as the true one.
        r, c = np.nonzero(T)
        v = T[r, c].astype(np.float64)
        split = np.arange(len(v)) % 2 == 0
        first = np.where(split, v * 0.25, v)
        return sp.coo_matrix((np.concatenate([first, v[split] * 0.75]),
                              (np.concatenate([r, r[split]]), np.concatenate([c, c[split]]))), shape=T.shape)
    if name == "csr_array":
        return sp.csr_array(T)
    if name == "coo_array":
        return sp.coo_array(T)
    if name == "csr_idx64":
        # int64 index arrays (what scipy produces for matrices derived from very large ones)
        m = sp.csr_matrix(T)
        m.indices = m.indices.astype(np.int64)
        m.indptr = m.indptr.astype(np.int64)
        return m
    if name == "csc_unsorted":
        # entries of every column stored in descending row order: same matrix, indices not sorted
        m = sp.csc_matrix(T)
        data, ind, ptr = m.data.copy(), m.indices.copy(), m.indptr
        for k in range(T.shape[1]):
            data[ptr[k]:ptr[k + 1]] = data[ptr[k]:ptr[k + 1]][::-1]
            ind[ptr[k]:ptr[k + 1]] = ind[ptr[k]:ptr[k + 1]][::-1]
        return sp.csc_matrix((data, ind, ptr.copy()), shape=T.shape)
    raise ValueError(name)


def dense_of(x):
    """Plain 2-D float ndarray of a library result (ndarray, np.matrix or sparse)."""
    if sp.issparse(x):
        x = x.toarray()
    return np.asarray(x, dtype=np.float64)


def snapshot(x):
    """Value snapshot of an argument (to detect modification of the caller's object)."""
    if sp.issparse(x):
        return ("sparse", type(x).__name__, x.shape, str(x.dtype), x.toarray().tobytes())
    if isinstance(x, np.ndarray):
        return ("nd", x.shape, str(x.dtype), x.strides, np.array(x, copy=True).tobytes())
    if isinstance(x, (list, tuple)):
        return ("seq", type(x).__name__, tuple(x))
    return ("obj", repr(x))


# --------------------------------------------------------------------------
# chains

NONREV_KINDS = ["dense", "sparse", "periodic"]
REV_KINDS = ["rev", "rev_dense", "rev_tree"]
ALL_KINDS = NONREV_KINDS + REV_KINDS


def weights_of(case):
    M = np.array(case["M"], dtype=np.float64)
    if case.get("E") is not None:
        M = M * np.power(10.0, -np.array(case["E"], dtype=np.float64))
    return M


def build_T(case):
    W = weights_of(case)
    return W / W.sum(axis=1)[:, None]


def exact_pi_reversible(case):
    """Stationary vector of a chain built from symmetric weights: row sums / total."""
    W = weights_of(case)
    assert np.array_equal(W, W.T)
    r = W.sum(axis=1)
    return r / r.sum()


def _divisors(n):
    return [d for d in range(2, n + 1) if n % d == 0]


@st.composite
def chain(draw, min_n=3, max_n=8, kinds=ALL_KINDS, wide_ok=True):
    kind = draw(st.sampled_from(kinds))
    n = draw(st.integers(min_n, max_n))
    wide = wide_ok and draw(st.sampled_from([False, False, True]))
    sym = kind in REV_KINDS
    mask = np.zeros((n, n), dtype=bool)
    perm = list(draw(st.permutations(list(range(n)))))
    if kind in ("dense", "rev_dense"):
        mask[:] = True
    elif kind == "sparse":
        extra = draw(st.lists(st.booleans(), min_size=n * n, max_size=n * n))
        mask = np.array(extra, dtype=bool).reshape(n, n)
        if draw(st.booleans()):     # thin the extras so that really sparse chains are common
            thin = draw(st.lists(st.booleans(), min_size=n * n, max_size=n * n))
            mask &= np.array(thin, dtype=bool).reshape(n, n)
        for k in range(n):
            mask[perm[k], perm[(k + 1) % n]] = True
    elif kind == "periodic":
        d = draw(st.sampled_from(_divisors(n)))
        chords = draw(st.lists(st.booleans(), min_size=n * n, max_size=n * n))
        chords = np.array(chords, dtype=bool).reshape(n, n)
        for a in range(n):
            for b in range(n):
                if (b - a) % d == 1 % d and (chords[a, b] or (b - a) % n == 1):
                    mask[perm[a], perm[b]] = True
    elif kind in ("rev", "rev_tree"):
        for k in range(1, n):
            p = draw(st.integers(0, k - 1))
            mask[perm[k], perm[p]] = mask[perm[p], perm[k]] = True
        if kind == "rev":
            extra = draw(st.lists(st.booleans(), min_size=n * n, max_size=n * n))
            extra = np.array(extra, dtype=bool).reshape(n, n)
            extra = np.triu(extra)
            mask |= extra | extra.T
    else:
        raise ValueError(kind)
    vals = np.array(draw(st.lists(st.integers(1, 20), min_size=n * n, max_size=n * n))).reshape(n, n)
    if sym:
        vals = np.triu(vals) + np.triu(vals, 1).T
    M = np.where(mask, vals, 0)
    E = None
    if wide:
        ex = np.array(draw(st.lists(st.integers(0, 3), min_size=n * n, max_size=n * n))).reshape(n, n)
        if sym:
            ex = np.triu(ex) + np.triu(ex, 1).T
        E = np.where(mask, ex, 0).tolist()
    return {"n": n, "kind": kind, "M": M.tolist(), "E": E}


def is_irreducible(T):
    n = T.shape[0]
    A = (T > 0).astype(np.int64)
    R = np.eye(n, dtype=np.int64)
    for _ in range(n):
        R = ((R + R @ A) > 0).astype(np.int64)
    return bool(R.all())


@st.composite
def disjoint_sets(draw, n, min_inter=0, max_each=None):
    """Two disjoint non-empty state lists (arbitrary order), leaving >= min_inter other states."""
    perm = list(draw(st.permutations(list(range(n)))))
    room = n - min_inter
    hi = room - 1 if max_each is None else min(max_each, room - 1)
    # mostly small sets (so that intermediate states exist), sometimes anything up to a full cover
    a = draw(st.one_of(st.integers(1, min(2, hi)), st.integers(1, min(2, hi)), st.integers(1, hi)))
    hb = room - a if max_each is None else min(max_each, room - a)
    b = draw(st.one_of(st.integers(1, min(2, hb)), st.integers(1, min(2, hb)), st.integers(1, hb)))
    if draw(st.booleans()) and b <= hi and a <= room - b:
        a, b = b, a
    return perm[:a], perm[a:a + b]


@st.composite
def reactive_sets(draw, ch):
    """Disjoint non-empty source/sink lists such that at least one intermediate state has a neighbour in each
    set (its committor is strictly between 0 and 1): pick a hub with >= 2 neighbours, put one neighbour in
    each set, label the remaining states freely."""
    n = ch["n"]
    M = np.array(ch["M"])
    nbrs = [[j for j in range(n) if j != i and M[i][j] > 0] for i in range(n)]
    hubs = [i for i in range(n) if len(nbrs[i]) >= 2]
    hub = draw(st.sampled_from(hubs))
    two = list(draw(st.permutations(nbrs[hub])))[:2]
    rest = [i for i in range(n) if i != hub and i not in two]
    labels = draw(st.lists(st.sampled_from([0, 0, 0, 1, 2]), min_size=len(rest), max_size=len(rest)))
    src = [two[0]] + [i for i, l in zip(rest, labels) if l == 1]
    snk = [two[1]] + [i for i, l in zip(rest, labels) if l == 2]
    src = list(draw(st.permutations(src)))
    snk = list(draw(st.permutations(snk)))
    return src, snk


SET_FORMS = ["list", "int64", "int32", "scalar", "tuple", "col2d", "nested", "row2d"]


def set_arg(states, form):
    """Present a state set the way callers do (list, ndarray, bare int for a singleton)."""
    if form == "scalar" and len(states) == 1:
        return int(states[0])
    if form == "int64":
        return np.array(states, dtype=np.int64)
    if form == "int32":
        return np.array(states, dtype=np.int32)
    if form == "tuple":
        return tuple(int(s) for s in states)
    if form == "col2d":                     # the (k, 1) array np.argwhere returns
        return np.array(states, dtype=np.int64).reshape(-1, 1)
    if form == "row2d":
        return np.array(states, dtype=np.int64).reshape(1, -1)
    if form == "nested":
        return [[int(s)] for s in states]
    return [int(s) for s in states]


def lag_strategy():
    # "any positive lag time": also lag times written in seconds (1e-12 .. 1e-6) or in huge units
    return st.one_of(st.floats(0.01, 100.0, allow_nan=False, allow_infinity=False),
                     st.floats(0.01, 1.0, allow_nan=False, allow_infinity=False),
                     st.integers(1, 100),
                     st.sampled_from([1e-12, 5e-12, 2e-9, 1e-8, 3e-7, 1e-4, 1e6, 1e9]))


# --------------------------------------------------------------------------
# reference models (reduced linear systems on the non-absorbing block)

def ref_stationary(T):
    """Stationary row vector of an irreducible chain: pi (I - T) = 0, sum pi = 1."""
    n = T.shape[0]
    A = (np.eye(n) - T).T.copy()
    A[-1, :] = 1.0
    b = np.zeros(n)
    b[-1] = 1.0
    return np.linalg.solve(A, b)


def ref_committor(T, sources, sinks):
    n = T.shape[0]
    absorbing = set(sources) | set(sinks)
    free = [i for i in range(n) if i not in absorbing]
    q = np.zeros(n)
    q[list(sinks)] = 1.0
    if free:
        Q = T[np.ix_(free, free)]
        r = T[np.ix_(free, list(sinks))].sum(axis=1)
        q[free] = np.linalg.solve(np.eye(len(free)) - Q, r)
    return q


def ref_backward_committor(T, pi, sources, sinks):
    """P(the chain was last in `sources` rather than `sinks`) = forward committor of the
    time-reversed chain towards `sources`."""
    Trev = (T.T * pi[None, :]) / pi[:, None]
    return ref_committor(Trev, sinks, sources)


def ref_mfpt(T, sinks, lag=1.0):
    n = T.shape[0]
    sinks = set(sinks)
    free = [i for i in range(n) if i not in sinks]
    m = np.zeros(n)
    if free:
        Q = T[np.ix_(free, free)]
        m[free] = np.linalg.solve(np.eye(len(free)) - Q, np.ones(len(free)))
    return lag * m


def ref_flux(T, pi, qf, qb):
    f = pi[:, None] * qb[:, None] * T * qf[None, :]
    np.fill_diagonal(f, 0.0)
    return f


def close(a, b, atol, rtol):
    a = np.asarray(a, dtype=np.float64)
    b = np.asarray(b, dtype=np.float64)
    if a.shape != b.shape:
        return False
    if not (np.all(np.isfinite(a)) and np.all(np.isfinite(b))):
        return False
    return bool(np.all(np.abs(a - b) <= atol + rtol * np.maximum(np.abs(a), np.abs(b))))


def maxerr(a, b):
    a = np.asarray(a, dtype=np.float64)
    b = np.asarray(b, dtype=np.float64)
    return float(np.max(np.abs(a - b))) if a.size else 0.0


# --------------------------------------------------------------------------
# conditioning-aware tolerances
#
# The solution of (I - Q) x = b computed in double precision carries an error of about eps * cond(I - Q)
# whatever the algorithm, and stiff chains (weights spread over several decades on a tree-like support) reach
# cond ~ 1e6 and more.  Checks that compare *solutions* (not residuals) therefore add K_COND * eps * cond to
# their base tolerance; measured error / (eps * cond) stays below 0.4 on the unchanged tree.

EPS = float(np.finfo(np.float64).eps)
K_COND = 1e3


def cond_free(T, absorbing):
    """2-norm condition number of I - Q on the states outside `absorbing` (1.0 if there are none)."""
    n = T.shape[0]
    ab = set(int(a) for a in absorbing)
    free = [i for i in range(n) if i not in ab]
    if not free:
        return 1.0
    c = float(np.linalg.cond(np.eye(len(free)) - T[np.ix_(free, free)]))
    return c if np.isfinite(c) else 1e300


def cond_slack(cond):
    return K_COND * EPS * cond


UTIL = {}      # name -> largest (observed error / tolerance) seen; calibration aid only, never evidence


def within(name, err, tol):
    """max(err / tol) <= 1 with elementwise err, tol; records the utilisation under `name`."""
    err = np.abs(np.asarray(err, dtype=np.float64))
    tol = np.broadcast_to(np.asarray(tol, dtype=np.float64), err.shape)
    if err.size == 0:
        return True
    if not np.all(np.isfinite(err)):
        UTIL[name] = float("inf")
        return False
    with np.errstate(divide="ignore", invalid="ignore"):
        u = np.where(err == 0, 0.0, err / tol)
    u = float(np.max(u))
    if u > UTIL.get(name, 0.0):
        UTIL[name] = u
    return u <= 1.0

