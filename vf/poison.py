"""Heap-content fault injection for C19.

`with poison(fill) as rec:` replaces, for the duration of the block,

* every ufunc attribute of the `numpy` module by a wrapper which, when the ufunc is
  called with `where=` and WITHOUT `out=`, allocates the output itself, pre-filled with
  `fill`, and passes it as `out=` - exactly the freedom an uninitialised output has;
* `numpy.empty` / `numpy.empty_like` by versions that return arrays pre-filled with `fill`.

A routine whose result depends on those cells therefore returns something different
(or raises) under different fills; a routine that initialises or ignores them cannot
tell the difference.  `rec.sites` records the source lines (file:line) that triggered a
wrapper, for the coverage accounting against the AST denominator (`masked_call_sites`).
"""
import ast
import contextlib
import os
import sys
import warnings

import numpy as np

_REAL_EMPTY = np.empty
_REAL_EMPTY_LIKE = np.empty_like
_UFUNCS = {name: getattr(np, name) for name in dir(np) if isinstance(getattr(np, name), np.ufunc)}


def _fill_value(dtype, fill):
    dtype = np.dtype(dtype)
    if dtype.kind == "f" or dtype.kind == "c":
        return fill
    if dtype.kind in "iu":
        if fill != fill or fill in (float("inf"), float("-inf")):
            return np.iinfo(dtype).max // 3
        v = int(fill) if abs(fill) < 2 ** 20 else 12345
        if dtype.kind == "u":
            v = abs(v)
        return min(v, np.iinfo(dtype).max)
    if dtype.kind == "b":
        return bool(fill == fill and fill != 0) or (fill != fill)
    return None


def _caller_site(depth=2):
    f = sys._getframe(depth)
    while f is not None:
        fn = f.f_code.co_filename
        if "/enspara/" in fn:
            return "%s:%d" % (fn.split("/enspara/", 1)[1], f.f_lineno)
        f = f.f_back
    return None


class Recorder:
    def __init__(self):
        self.sites = {}
        self.masked_calls = 0
        self.empty_calls = 0

    def hit(self, kind, site):
        if site is not None:
            key = "%s@%s" % (kind, site)
            self.sites[key] = self.sites.get(key, 0) + 1


class _UfuncWrapper:
    def __init__(self, real, fill, rec):
        self._real = real
        self._fill = fill
        self._rec = rec

    def __call__(self, *args, **kw):
        real = self._real
        if "where" in kw and kw.get("out") is None and len(args) <= real.nin and not isinstance(kw["where"], bool):
            site = _caller_site()
            if site is not None:          # only poison calls made by the library under test
                with warnings.catch_warnings():
                    warnings.simplefilter("ignore")
                    probe = real(*args, **kw)
                if isinstance(probe, np.ndarray):
                    fv = _fill_value(probe.dtype, self._fill)
                    if fv is not None:
                        out = _REAL_EMPTY(probe.shape, dtype=probe.dtype)
                        out[...] = fv
                        kw2 = dict(kw)
                        kw2["out"] = out
                        self._rec.masked_calls += 1
                        self._rec.hit("masked_ufunc", site)
                        return real(*args, **kw2)
                return probe
        return real(*args, **kw)

    def __getattr__(self, name):
        return getattr(self._real, name)


@contextlib.contextmanager
def poison(fill):
    rec = Recorder()

    def empty(shape, dtype=float, *a, **k):
        arr = _REAL_EMPTY(shape, dtype, *a, **k)
        site = _caller_site()
        if site is not None:
            fv = _fill_value(arr.dtype, fill)
            if fv is not None:
                arr[...] = fv
                rec.empty_calls += 1
                rec.hit("empty", site)
        return arr

    def empty_like(proto, *a, **k):
        arr = _REAL_EMPTY_LIKE(proto, *a, **k)
        site = _caller_site()
        if site is not None and isinstance(arr, np.ndarray):
            fv = _fill_value(arr.dtype, fill)
            if fv is not None:
                arr[...] = fv
                rec.empty_calls += 1
                rec.hit("empty_like", site)
        return arr

    saved = {}
    try:
        for name, real in _UFUNCS.items():
            saved[name] = getattr(np, name)
            setattr(np, name, _UfuncWrapper(real, fill, rec))
        saved["empty"] = np.empty
        saved["empty_like"] = np.empty_like
        np.empty = empty
        np.empty_like = empty_like
        yield rec
    finally:
        for name, v in saved.items():
            setattr(np, name, v)


def masked_call_sites(root):
    """AST pass (a denominator, decides nothing): every call in enspara/**/*.py that passes `where=`
    to something and no `out=`; plus np.empty / empty_like call sites."""
    out = {"masked_no_out": [], "masked_with_out": [], "empty": []}
    for dp, dn, fn in os.walk(root):
        if "/test" in dp or "/data" in dp:
            continue
        for f in fn:
            if not f.endswith(".py"):
                continue
            p = os.path.join(dp, f)
            try:
                tree = ast.parse(open(p).read())
            except SyntaxError:
                continue
            rel = os.path.relpath(p, root)
            for node in ast.walk(tree):
                if isinstance(node, ast.Call):
                    kws = {k.arg for k in node.keywords if k.arg}
                    fname = ""
                    if isinstance(node.func, ast.Attribute):
                        fname = node.func.attr
                    elif isinstance(node.func, ast.Name):
                        fname = node.func.id
                    if "where" in kws and fname not in ("get_node", "create_carray", "list_nodes"):
                        key = "%s:%d:%s" % (rel, node.lineno, fname)
                        (out["masked_with_out"] if "out" in kws else out["masked_no_out"]).append(key)
                    if fname in ("empty", "empty_like"):
                        out["empty"].append("%s:%d:%s" % (rel, node.lineno, fname))
    return out
