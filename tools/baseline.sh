#!/bin/bash
# Run the repository's pinned suite (47 tests expected to pass) in a given tree (default /repo).
cd "${1:-/repo}" && /venv/bin/python -m pytest -ra -q -p no:cacheprovider --timeout=900 --continue-on-collection-errors 2>&1 | tail -3
