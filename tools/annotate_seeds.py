#!/usr/bin/env python3
"""tools/annotate_seeds.py <glob>: fill `what` and `needs_to_manifest` of seeded/<id>/meta.json
from the seed's notes.md (heading line, and the paragraph about what the change needs in order
to show).  Existing hand-written values are kept."""
import glob
import json
import re
import sys

pattern = sys.argv[1] if len(sys.argv) > 1 else "C*"
for d in sorted(glob.glob("/verif/seeded/" + pattern)):
    try:
        meta = json.load(open(d + "/meta.json"))
        notes = open(d + "/notes.md").read()
    except OSError:
        continue
    head = next((l for l in notes.splitlines() if l.startswith("#")), "")
    head = re.sub(r"^#+\s*(Change|Mutant|Patch)?\s*\d*\s*[—:-]*\s*", "", head).strip()
    if head and not meta.get("what"):
        meta["what"] = head[:300]
    m = re.search(r"(?is)\*\*\s*What is needed[^*]*\*\*[:.]?\s*(.*?)(?=\n\s*\*\*[A-Z][^*\n]{3,80}\*\*|\n#|\Z)", notes)
    if not m:
        m = re.search(r"(?is)\n#+\s*What is needed[^\n]*\n(.*?)(?=\n#|\Z)", notes)
    if not m:
        m = re.search(r"(?is)(?:needs|needed|precondition|trigger)[^\n]*\n(.*?)(?=\n\s*\*\*|\n#|\Z)", notes)
    if m and meta.get("needs_to_manifest", "see notes.md") == "see notes.md":
        txt = re.sub(r"\s+", " ", m.group(1)).strip()
        if txt:
            meta["needs_to_manifest"] = txt[:600]
    json.dump(meta, open(d + "/meta.json", "w"), indent=1)
    print(d.split("/")[-1], "|", meta.get("what", "")[:70], "|", meta.get("needs_to_manifest", "")[:60])
