#!/venv/bin/python
"""Regenerate MANIFEST.json from the table below (kept valid at all times)."""
import json
import os

VERIF = os.path.dirname(os.path.dirname(os.path.abspath(__file__)))

PY = "/venv/bin/python"

# id -> (category, technique, level text, level note, design ref)
CHECKS = {
    "C03": ("exploration",
            "Hypothesis-generated trajectory sets vs literal pair-count reference model; metamorphic (additivity, presentation, permutation); RaggedArrays built from flat data plus a narrow-dtype lengths table whose running total passes the table's type; exhaustive small sub-domain in thorough",
            "Generated-input search with an independent reference (double loop over lagged pairs). Every clause of the statement is a separate Hypothesis test; thorough shards 16 ways and enumerates a finite sub-domain completely. Not a proof: absence of counter-examples in the explored space.",
            "Trusts numpy integer arithmetic and the reference loop; state ids non-negative, -1 only as trailing padding.",
            "DESIGN.md §2 C03"),
    "C13": ("exploration",
            "Hypothesis-generated arrays x dtype x memory layout x out-buffer mode x OpenMP thread count vs exact integer/float64 reference; bit-identity metamorphic relation across layouts/threads; invalid inputs in child interpreters; thorough repeats under an ASan+UBSan build",
            "Generated-input search against an exact reference (python-int arithmetic for integer dtypes). Layouts, out views with canaries, and thread counts are generated dimensions; invalid inputs must raise and are executed in child processes so a crash is recorded, and the thorough tier re-runs valid and invalid campaigns with the extensions compiled with -fsanitize=address,undefined so out-of-bounds accesses become visible. Races are searched by repetition, not excluded.",
            "OpenMP schedule not controllable (thread count only); |int64| <= 2^53 and |float| <= 1e6; libasan/libubsan from gcc 12 as the memory oracle.",
            "DESIGN.md §2 C13"),
    "C20": ("exploration",
            "Hypothesis-generated angle histories built region-by-region against a reference hysteresis state machine (whole-sequence, one-step stay/exit oracles, zero-buffer binning, prefix/restart metamorphic); exhaustive grid enumeration in thorough; RotamerFeaturizer.fit on 1..4 trajectory pieces vs the reference machine started afresh per trajectory; transition tables vs literal per-row loop",
            "Generated-input search with an independent plain-python circular-interval state machine as reference model; gate values are avoided by construction, seam approaches and buffer zones are forced by the region generator; the thorough tier enumerates all length<=4 sequences over a 24-point grid for the library's boundary sets. Transition bookkeeping is compared with a literal loop for 1-D, 2-D and ragged inputs.",
            "Angles in [0,360) at >= 1e-6 from gate values; library boundary sets with every buffer its range check admits; random boundary sets with limited buffers.",
            "DESIGN.md §2 C20"),
    "C05": ("exploration",
            "Hypothesis-generated ragged arrays x index-expression grammar vs list-of-rows numpy model (three-way verdict: must-raise / unrepresentable / equal values and row structure); exhaustive small slice-pair enumeration in thorough",
            "Generated-input search against an independent list-of-rows reference model evaluated with plain numpy semantics; every read form of the statement is its own clause; out-of-row element access must raise; the thorough tier enumerates all length vectors with <=3 rows of length <=3 x slice pairs completely.",
            "Element dtype of returned rows not compared; selections with empty rows may raise or return the equal structure.",
            "DESIGN.md §2 C05"),
    "C06": ("exploration",
            "Hypothesis stateful testing (RuleBasedStateMachine): operation histories applied to RaggedArray and to a list-of-rows model, every observer compared after every step; shrunk JSON history replays without Hypothesis; separate aliasing clause",
            "Model-based stateful search: rules draw operations valid for the current model state (element/row/row-slice/2-D slice/column/fancy/mask writes, appends, augmented and binary operators), the invariant compares rows, iteration, flat data, lengths, starts, size, shape, every element, reductions and comparisons with the model after each step; operators must return new objects and leave operands unchanged.",
            "Whole-row assignment changes the row length only while the array is ragged (on equal-length arrays it is a numpy block assignment) or through a[rows] = RaggedArray; writes through row views excluded; entirely empty write selections may raise but must not change anything; a write numpy refuses for the model (wrong number of values) must be refused and leave every view unchanged; dtype of the flat buffer not compared.",
            "DESIGN.md §2 C06, §7.2"),
    "C10": ("exploration",
            "Hypothesis-generated data/centers/metrics/length vectors vs brute-force distance matrix (any minimiser accepted), partition round-trip and index-addressing oracles, synthetic trajectory files for batch reassignment vs Kabsch/md.rmsd brute force; exhaustive small partition enumeration",
            "Generated-input search with brute-force reference oracles for nearest-center assignment (direct, predict, file-based reassign with forced multi-batch splits), and literal oracles for partitioning, (trajectory, frame) addressing, container type and the per-label center finder.",
            "Tie-breaking not asserted; rmsd tolerance 1e-4 relative on squared values; >= 4 non-planar atoms for rmsd cases.",
            "DESIGN.md §2 C10"),
    "C11": ("exploration",
            "Hypothesis-generated block-structured count matrices x thresholds x containers vs own SCC computation (boolean Warshall closure, tie-tolerant heaviest component); exhaustive enumeration of all 3x3 {0,1,2} and 4x4 0/1 matrices in thorough",
            "Generated-input search with an independent strongly-connected-component oracle; every sentence (heaviest SCC, strong connectivity, sub-matrix, in-place variant, mapping bijection/order, variant agreement, container type, dense==sparse, input unchanged, MSM mapping) is its own clause; finite sub-domains enumerated completely.",
            "Which of several equally heavy components is kept is not asserted; thresholds >= 1.",
            "DESIGN.md §2 C11"),
    "C14": ("exploration",
            "Hypothesis-generated worlds (size, trajectory lengths, tie-free data, stopping criteria, rank schedules) executed on an in-process communicator double with a baton scheduler; differential oracle = serial algorithm / serial definition, compared on every rank",
            "Generated-input search over world sizes 1..9, length vectors and arrival orders at collectives against the serial computation on the concatenated data; the double verifies that all ranks call the same collective with the same root (deadlock / buffer mismatch = violation). Decides the algorithmic claim only.",
            "No MPI runtime in the sandbox: real mpi4py/libmpi buffer handling is outside reach; the double's fidelity to MPI semantics is trusted.",
            "DESIGN.md §2 C14, §7.2"),
    "C15": ("exploration",
            "Hypothesis-generated arrays/dtypes/compression/strides/key subsets: HDF5 save->load round-trip with bit equality; synthetic trajectory files x worker counts x injected per-file delays (completion order owned by the generator) for load_as_concatenated vs per-file concatenation",
            "Round-trip and differential oracles with exact (bitwise) equality; worker completion order is a generated dimension through delays injected into the forked workers; exhaustive row-count and (len,len,stride) sub-domains in thorough.",
            "Global lengths of striped loaders under stride>1 not asserted (undocumented); plain-ndarray stride axis ambiguity accepted both ways.",
            "DESIGN.md §2 C15"),
    "C17": ("exploration",
            "Hypothesis-generated conserved DAG flows / arbitrary weighted digraphs / perturbed flows vs exhaustive simple-path enumeration, threshold-reachability widest-path oracle and tie-tolerant residual replay; exhaustive 3- and 4-node 0/1/2-weight digraphs",
            "Generated-input search with validity predicates (simple path, positive edges, flux = min edge), independent bottleneck-optimality oracles, residual replay for successive paths, monotonicity, sum bound, fraction reached, stopping rule and input immutability; one recorded known finding (bottleneck removal scheme can over-explain the flux).",
            "Dense ndarray flux matrices; num_paths >= 1; decisions within 1e-9 of the cutoff not judged.",
            "DESIGN.md §2 C17"),
    "C19": ("fault_enumeration",
            "Fault injection (pre-filled outputs for every masked ufunc without out= and every np.empty/empty_like, 5 fill patterns) + metamorphic relations (repeat, rebuilt arguments, thread counts, preceding call history, argument immutability, in-place refill of the argument arrays followed by an immediate second call, results keep their value across later calls, worker-process counts incl. every (states, workers) pair of BACE pruning in thorough) over a registry of ~60 numerical routines with Hypothesis-generated arguments, plus the >= 1000-state iterative eigen-solver branch and worker-process bootstrap; AST pass as denominator",
            "For each generated call the result must be bit-identical under every injected heap fill, every thread count, after any generated prefix of other library calls and on repetition, and arguments must be unchanged. The evidence lists which masked call sites / empty allocations the wrappers actually observed against the AST-derived list.",
            "Heap contents are modelled by pre-filling buffers numpy is left to allocate, not by driving malloc; OpenMP schedules not controllable.",
            "DESIGN.md §2 C19"),
    "C16": ("exploration",
            "Hypothesis-generated assignment sets x estimator configurations: MSM estimator vs hand-composed function pipeline (differential) and vs independent literal models; save/load round-trip with bit equality; eigen-decomposition validity predicates on five matrix families incl. ARPACK-sized chains; propagation vs literal p<-pT loop",
            "Differential + reference-model search: counts exact, mapping equal, T and populations to 1e-12 against the composed pipeline and against own closed-form builders; round-trip equality incl. the class's own ==; spectral claims as validity predicates (real, sorted, leading 1, stationary left eigenvector, eigen-equation residual); exhaustive configuration enumeration on fixed assignment sets in thorough.",
            "trim=False with unvisited states is outside the domain; ARPACK results checked as validity predicates (1e-8).",
            "DESIGN.md §2 C16"),
    "C18": ("exploration",
            "Hypothesis-generated feature trajectories x integer dtypes x layouts x thread counts vs literal python counting (exact) and math.log reference MI; algebraic laws as metamorphic relations; invalid inputs in child interpreters; thorough repeats under ASan+UBSan and enumerates small tables exhaustively",
            "Generated-input search with exact counting oracle and exact-rational reference mutual information; each law of the statement (non-negativity, symmetry, diagonal entropy, upper bound, relabelling, reordering, pooling, uniform weights, channel-capacity normalisation, KL) is its own clause; rejection of invalid ids is decided in child processes so that heap corruption is a recorded violation.",
            "OpenMP schedule not controllable; ids < 2^31.",
            "DESIGN.md §2 C18"),
    "C01": ("exploration",
            "Hypothesis-generated distinct point sets (lattice construction) x dtypes x metrics x entry points x cold/warm starts vs float64 reference metric: validity predicates for centers, distances, nearest-center, labels, self-labels, and bit-exact input freeze; exhaustive tiny PAM enumeration in thorough",
            "Generated-input search with an oracle independent of libdist (float64 numpy recomputation); every sentence of the statement is a clause, every entry point (function and estimator forms of k-centers, k-medoids, k-hybrid) and warm-start form is a generated dimension; PAM-update branch coverage is measured by a reference replay.",
            "Distinct points by construction; kmedoids(n_iters=0) and k > n cold starts outside the domain; OpenMP pinned to one thread (thread count is C13's dimension).",
            "DESIGN.md §2 C01"),
    "C02": ("exploration",
            "Hypothesis-generated data/metrics/stopping criteria (radius cutoffs at safe midpoints of the distance set)/initial centers: independent Gonzalez replay (tie-tolerant), logged radius sequence, brute-force OPT_k over all subsets for the 2-approximation, stop-on-cue predicates, differential plain vs triangle-inequality shortcut; exhaustive small stopping sub-domain",
            "Generated-input search with reference replay and brute-force optimum; cutoffs are constructed so no comparison sits on a rounding boundary; a count-bounded watchdog turns a non-terminating run into a violation.",
            "2*OPT bound asserted only where Gonzalez' theorem applies (cold start or single data-frame init); n_clusters=None with cutoff 0 outside the domain.",
            "DESIGN.md §2 C02"),
    "C04": ("exploration",
            "Hypothesis-generated count matrices (strongly connected by construction where required) x 9 containers x priors x population flag vs dense reference arithmetic; stationarity / detailed-balance residuals; differential dense vs every sparse format (matrix and array flavours, non-canonical layouts, 64-bit indices); input snapshots incl. sparse internals; result ownership across builds; metastable 1000+-state chains with closed-form populations; exhaustive builder x layout x prior product on a fixed matrix",
            "Generated-input search against closed-form dense references (row normalisation, symmetrisation, stationary solve) with residual tolerances 1e-9..1e-13; container type and input immutability are checked structurally.",
            "scipy *_array containers asserted like their matrix counterparts (clause sparse_arrays); np.matrix accepted as legitimately densified result.",
            "DESIGN.md §2 C04"),
    "C07": ("exploration",
            "Hypothesis-generated irreducible chains (dense positive, sparse+cycle, reversible, periodic) x source/sink sets x containers x lag times: residuals of the first-step equations computed with dense numpy, all-pairs vs single-sink differential, lag-time scaling, dense vs sparse, inputs unchanged",
            "Generated-input search where the oracle is the defining linear system itself (residual check), independent of how the library solves it.",
            "Irreducible row-stochastic input; tolerances 1e-8..1e-10 scaled by the solution magnitude.",
            "DESIGN.md §2 C07"),
    "C08": ("exploration",
            "Hypothesis-generated reversible ergodic chains with given or computed populations: reactive flux vs definition built from a reference committor solve, net flux = positive part of f - f^T, conservation at intermediate states, source/sink boundary conditions, reactive populations as a probability vector; dense and sparse containers",
            "Generated-input search against the definitions evaluated with an independent committor solve; conservation laws as invariants.",
            "Reversible chains (constructed from symmetric weights); tolerances 1e-10..1e-12.",
            "DESIGN.md §2 C08"),
    "C09": ("exploration",
            "Hypothesis-generated data/k/sweep counts/seeds/explicit proposal lists: cost (reference mean squared distance) non-increasing over n_iters = 1..s via public API and via _kmedoids_iterations, hybrid <= k-centers, cluster count and center-frame invariants, bitwise reproducibility with fixed seed / proposals, warm-state chains; exhaustive tiny enumeration in thorough",
            "History property decided by running the public API with increasing sweep counts on identical inputs (explicit proposals / integer seeds make sweep s+1 a deterministic continuation, verified in the source) and comparing reference costs.",
            "Distinct points; cold k-medoids limited to k where k random frames are distinct with probability >= 1e-3.",
            "DESIGN.md §2 C09"),
    "C12": ("exploration",
            "Hypothesis-generated strongly connected count matrices (integer/real, symmetric to 10^3-skewed, with zeros): termination without internal assertion, log-likelihood vs generated reversible competitors / transpose estimate / independent fixed point, Prinz self-consistency residual, compiled vs pure-Python differential, thread-count metamorphic relation on 129..257 states, non-convergence warning; exhaustive 3-state {0,1,4} matrices in thorough",
            "Generated-input search with likelihood-dominance and fixed-point residual oracles plus a differential between the two implementations; one recorded known finding (round-off breakdown on ill-conditioned matrices).",
            "Tolerances tolR = tolD = 1e-5, tolL = 1e-8(1+|L|) calibrated at design time; cases needing > 3000 python sweeps skipped (<1%).",
            "DESIGN.md §2 C12"),
}

NOT_YET = {}


def main():
    props = [json.loads(l) for l in open(os.path.join(VERIF, "properties.jsonl"))]
    checks = []
    na = []
    for p in props:
        pid = p["id"]
        if pid in CHECKS:
            cat, tech, text, note, ref = CHECKS[pid]
            checks.append({
                "property_id": pid,
                "quick_cmd": "%s run_check.py %s --tier quick" % (PY, pid),
                "thorough_cmd": "%s run_check.py %s --tier thorough" % (PY, pid),
                "evidence_file": "/verif/evidence/%s.json" % pid,
                "replay_cmd_template": "%s run_check.py %s --replay {path}" % (PY, pid),
                "engine": "vf-hypothesis",
                "level_claimed": {"category": cat, "text": text, "design_ref": ref},
                "level_note": note,
                "technique": tech,
            })
        else:
            na.append({"property_id": pid,
                       "reason": NOT_YET.get(pid, "check not built yet in this session (planned in DESIGN.md §2); not claimed until it exists")})
    man = {
        "version": 1,
        "setup_cmd": "/venv/bin/python -c 'import hypothesis' 2>/dev/null || /venv/bin/pip install --no-index --find-links /opt/veriftools/wheels hypothesis; /venv/bin/python -m vf.build",
        "hooks": {
            "guard": "ENSPARA_VERIF",
            "enable": "no guarded source hooks exist; checks build /repo's working tree into /verif/.build/src (python -m vf.build) and pre-load sys.modules['mpi4py'] in the harness",
            "baseline_off_cmd": "cd /repo && /venv/bin/python -m pytest -ra -q -p no:cacheprovider --timeout=900 --continue-on-collection-errors",
            "source_commits": [],
            "add_only": True,
        },
        "engines": [{
            "name": "vf-hypothesis",
            "path": "/verif/run_check.py",
            "serves_properties": sorted(CHECKS),
            "kind_free_text": "Hypothesis 6.168 property-based testing: per-clause generators yielding JSON cases, independent reference oracles, shrink -> JSON replay, sharded over processes; exhaustive enumeration of small finite sub-domains in the thorough tier",
        }],
        "checks": checks,
        "not_applicable": na,
        "notes": "All checks: /venv/bin/python run_check.py <id> --tier quick|thorough [--replay file]. Exit 2 = harness error (never a verdict). known_findings.json lists recorded (open) and fixed defects; regressions/<id>/*.json are the shrunk inputs of fixed defects, replayed on every run (a failing one is a VIOLATION).",
    }
    with open(os.path.join(VERIF, "MANIFEST.json"), "w") as f:
        json.dump(man, f, indent=1)
    try:
        import jsonschema
        jsonschema.validate(man, json.load(open("/root/.vp/MANIFEST.schema.json")))
        print("MANIFEST valid; %d checks, %d not_applicable" % (len(checks), len(na)))
    except ImportError:
        print("MANIFEST written (jsonschema not available here)")


if __name__ == "__main__":
    main()
