#!/venv/bin/python
"""Regenerate MANIFEST.json from the table below (kept valid at all times)."""
import json
import os

VERIF = os.path.dirname(os.path.dirname(os.path.abspath(__file__)))

PY = "/venv/bin/python"

# id -> (category, technique, level text, level note, design ref)
CHECKS = {
    "C03": ("exploration",
            "Hypothesis-generated trajectory sets vs literal pair-count reference model; metamorphic (additivity, presentation, permutation); exhaustive small sub-domain in thorough",
            "Generated-input search with an independent reference (double loop over lagged pairs). Every clause of the statement is a separate Hypothesis test; thorough shards 16 ways and enumerates a finite sub-domain completely. Not a proof: absence of counter-examples in the explored space.",
            "Trusts numpy integer arithmetic and the reference loop; state ids non-negative, -1 only as trailing padding.",
            "DESIGN.md §2 C03"),
    "C13": ("exploration",
            "Hypothesis-generated arrays x dtype x memory layout x out-buffer mode x OpenMP thread count vs exact integer/float64 reference; bit-identity metamorphic relation across layouts/threads; invalid inputs in child interpreters; thorough repeats under an ASan+UBSan build",
            "Generated-input search against an exact reference (python-int arithmetic for integer dtypes). Layouts, out views with canaries, and thread counts are generated dimensions; invalid inputs must raise and are executed in child processes so a crash is recorded, and the thorough tier re-runs valid and invalid campaigns with the extensions compiled with -fsanitize=address,undefined so out-of-bounds accesses become visible. Races are searched by repetition, not excluded.",
            "OpenMP schedule not controllable (thread count only); |int64| <= 2^53 and |float| <= 1e6; libasan/libubsan from gcc 12 as the memory oracle.",
            "DESIGN.md §2 C13"),
    "C20": ("exploration",
            "Hypothesis-generated angle histories built region-by-region against a reference hysteresis state machine (whole-sequence, one-step stay/exit oracles, zero-buffer binning, prefix/restart metamorphic); exhaustive grid enumeration in thorough; transition tables vs literal per-row loop",
            "Generated-input search with an independent plain-python circular-interval state machine as reference model; gate values are avoided by construction, seam approaches and buffer zones are forced by the region generator; the thorough tier enumerates all length<=4 sequences over a 24-point grid for the library's boundary sets. Transition bookkeeping is compared with a literal loop for 1-D, 2-D and ragged inputs.",
            "Angles in [0,360) at >= 1e-6 from gate values; library boundary sets with every buffer its range check admits; random boundary sets with limited buffers.",
            "DESIGN.md §2 C20"),
}

NOT_YET = {}


def main():
    props = [json.loads(l) for l in open(os.path.join(VERIF, "properties.jsonl"))]
    checks = []
    na = []
    for p in props:
        pid = p["id"]
        if pid in CHECKS:
            cat, tech, text, note, ref = CHECKS[pid]
            checks.append({
                "property_id": pid,
                "quick_cmd": "%s run_check.py %s --tier quick" % (PY, pid),
                "thorough_cmd": "%s run_check.py %s --tier thorough" % (PY, pid),
                "evidence_file": "/verif/evidence/%s.json" % pid,
                "replay_cmd_template": "%s run_check.py %s --replay {path}" % (PY, pid),
                "engine": "vf-hypothesis",
                "level_claimed": {"category": cat, "text": text, "design_ref": ref},
                "level_note": note,
                "technique": tech,
            })
        else:
            na.append({"property_id": pid,
                       "reason": NOT_YET.get(pid, "check not built yet in this session (planned in DESIGN.md §2); not claimed until it exists")})
    man = {
        "version": 1,
        "setup_cmd": "/venv/bin/python -c 'import hypothesis' 2>/dev/null || /venv/bin/pip install --no-index --find-links /opt/veriftools/wheels hypothesis; /venv/bin/python -m vf.build",
        "hooks": {
            "guard": "ENSPARA_VERIF",
            "enable": "no guarded source hooks exist; checks build /repo's working tree into /verif/.build/src (python -m vf.build) and pre-load sys.modules['mpi4py'] in the harness",
            "baseline_off_cmd": "cd /repo && /venv/bin/python -m pytest -ra -q -p no:cacheprovider --timeout=900 --continue-on-collection-errors",
            "source_commits": [],
            "add_only": True,
        },
        "engines": [{
            "name": "vf-hypothesis",
            "path": "/verif/run_check.py",
            "serves_properties": sorted(CHECKS),
            "kind_free_text": "Hypothesis 6.168 property-based testing: per-clause generators yielding JSON cases, independent reference oracles, shrink -> JSON replay, sharded over processes; exhaustive enumeration of small finite sub-domains in the thorough tier",
        }],
        "checks": checks,
        "not_applicable": na,
        "notes": "All checks: /venv/bin/python run_check.py <id> --tier quick|thorough [--replay file]. Exit 2 = harness error (never a verdict). known_findings.json lists recorded and fixed defects.",
    }
    with open(os.path.join(VERIF, "MANIFEST.json"), "w") as f:
        json.dump(man, f, indent=1)
    try:
        import jsonschema
        jsonschema.validate(man, json.load(open("/root/.vp/MANIFEST.schema.json")))
        print("MANIFEST valid; %d checks, %d not_applicable" % (len(checks), len(na)))
    except ImportError:
        print("MANIFEST written (jsonschema not available here)")


if __name__ == "__main__":
    main()
