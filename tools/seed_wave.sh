#!/bin/bash
# tools/seed_wave.sh <PROP> <offset>: verify /tmp/m2-<prop>/MUTANTS patch_1..3, store as PROP-(k+offset), run own check
P=$1; off=${2:-3}; p=$(echo $P | tr A-Z a-z)
for k in 1 2 3; do
  sid=$((k+off))
  /verif/tools/seed_verify.sh $P $k /tmp/${WAVE:-m2}-$p/MUTANTS /tmp/${WAVE:-m2}-$p $sid 2>&1 | grep -E "RESULT" | cut -c1-170
  [ -d /verif/seeded/$P-$sid ] && timeout 2400 /verif/tools/seed_run.sh $P-$sid $P 2>&1 | cut -c1-250
done
