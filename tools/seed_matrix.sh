#!/bin/bash
# tools/seed_matrix.sh [ids...] : run every seeded change against the checks related to the files it touches
# (own property first), 3 at a time; results accumulate in seeded/<id>/meta.json ("checks_run").
cd /verif
related() {
  local f="$1" out=""
  grep -q "enspara/ra/ra.py" $f && out="$out C05 C06 C15 C10 C14 C19"
  grep -q "msm/transition_matrices.py" $f && out="$out C03 C11 C16 C04 C07 C19"
  grep -q "msm/builders.py\|msm/libmsm.pyx" $f && out="$out C04 C12 C16 C19"
  grep -q "cluster/" $f && out="$out C01 C02 C09 C10 C14 C19"
  grep -q "enspara/tpt/" $f && out="$out C07 C08 C17 C19"
  grep -q "geometry/libdist.pyx" $f && out="$out C13 C01 C02 C19"
  grep -q "info_theory/" $f && out="$out C18 C19"
  grep -q "enspara/mpi/" $f && out="$out C14 C15"
  grep -q "geometry/rotamer.py\|cards/disorder.py" $f && out="$out C20 C19"
  grep -q "util/load.py" $f && out="$out C15 C10"
  grep -q "msm/msm.py\|msm/timescales.py\|msm/synthetic_data.py" $f && out="$out C16 C11 C19"
  echo $out
}
ids="$@"; [ -z "$ids" ] && ids=$(ls seeded)
for id in $ids; do
  own=${id%-*}
  rel=$(related seeded/$id/patch.diff)
  todo=""
  for c in $own $rel; do
    case " $todo " in *" $c "*) ;; *)
      # skip checks already recorded
      python3 - "$id" "$c" <<'PY' && todo="$todo $c"
import json,sys
m=json.load(open('/verif/seeded/%s/meta.json'%sys.argv[1]))
sys.exit(0 if sys.argv[2] not in (m.get('checks_run') or {}) else 1)
PY
    ;; esac
  done
  [ -n "$todo" ] && echo "$id $todo"
done > /tmp/seed_matrix.todo
cat /tmp/seed_matrix.todo | xargs -P 3 -L 1 bash -c 'id=$0; shift 0; timeout 3600 tools/seed_run.sh $id "$@" > /tmp/seed_matrix.$id.log 2>&1'
echo done
