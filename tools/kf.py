#!/usr/bin/env python3
"""tools/kf.py fixed <id> <property> <commit> <what>   |  tools/kf.py open <id> <property> <clause|-> <matcher> <witness> <what>"""
import json, sys
p = '/verif/known_findings.json'
d = json.load(open(p))
if sys.argv[1] == 'fixed':
    _, _, fid, prop, commit, what = sys.argv
    d['findings'] = [e for e in d['findings'] if e['id'] != fid]
    d['findings'].append({"id": fid, "property": prop, "status": "fixed", "commit": commit,
                          "what": "fixed: property=%s %s %s" % (prop, commit, what)})
elif sys.argv[1] == 'open':
    _, _, fid, prop, clause, matcher, witness, what = sys.argv
    d['findings'] = [e for e in d['findings'] if e['id'] != fid]
    d['findings'].append({"id": fid, "property": prop, "clause": None if clause == '-' else clause, "matcher": matcher,
                          "status": "open", "what": what, "witness": witness})
json.dump(d, open(p, 'w'), indent=1)
print(len(d['findings']), 'entries')
