#!/bin/bash
# tools/seed_rebase.sh <seed_id> [theirs|<file with resolved patch>]
# Re-create seeded/<id>/patch.diff against /repo HEAD after repository fixes moved its context: 3-way apply in a scratch
# worktree, conflict regions resolved by taking the seeded side (or a hand-resolved patch is given), re-confirmed with
# tools/seed_verify.sh (demo passes on the clean tree, fails with the change, pinned suite unchanged); meta fields kept.
id=$1; mode=${2:-theirs}
P=${id%-*}; n=${id#*-}
d=/verif/seeded/$id
RB=/tmp/rb-$id
git -C /repo worktree remove --force $RB >/dev/null 2>&1; rm -rf $RB $RB-mut
git -C /repo worktree add -q --detach $RB HEAD || exit 2
if [ "$mode" = theirs ]; then
  (cd $RB && git apply --3way $d/patch.diff >/dev/null 2>&1
   for f in $(git diff --name-only --diff-filter=U); do
     python3 - "$f" <<'PY'
import sys, re
p = sys.argv[1]; s = open(p).read()
s = re.sub(r"<<<<<<< ours\n.*?=======\n(.*?)>>>>>>> theirs\n", lambda m: m.group(1), s, flags=re.S)
open(p, "w").write(s)
PY
   done
   git reset -q; git diff > /tmp/rb-$id.diff)
else
  cp "$mode" /tmp/rb-$id.diff
fi
git -C /repo worktree remove --force $RB >/dev/null 2>&1
mkdir -p $RB-mut
cp /tmp/rb-$id.diff $RB-mut/patch_1.diff; cp $d/demo.py $RB-mut/demo_1.py; [ -f $d/notes.md ] && cp $d/notes.md $RB-mut/notes_1.md
for e in $d/_*.py; do [ -f "$e" ] && cp $e $RB-mut/; done
orig=$(python3 -c "import json,re;m=json.load(open('$d/meta.json'));print(re.search(r'\((/tmp/[^)]+)\)', m['origin']).group(1))")
cp $d/meta.json /tmp/rb-$id.meta
out=$(/verif/tools/seed_verify.sh $P 1 $RB-mut $orig $n 2>&1 | grep RESULT)
echo "$out"
if echo "$out" | grep -q "confirmed=yes"; then
  python3 - $d/meta.json /tmp/rb-$id.meta <<'PY'
import json, sys
new = json.load(open(sys.argv[1])); old = json.load(open(sys.argv[2]))
for k, v in old.items():
    if k not in ("confirmed_here",):
        new[k] = v
new["rebased"] = "patch re-created against the /repo HEAD named in confirmed_here (repository fixes had moved its context)"
json.dump(new, open(sys.argv[1], "w"), indent=1)
PY
else
  cp /tmp/rb-$id.meta $d/meta.json
  (cd /verif && git checkout -q -- seeded/$id 2>/dev/null)
fi
rm -rf $RB-mut
