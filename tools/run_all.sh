#!/bin/bash
# tools/run_all.sh [ids...]  (env VERIF_SEED, TIER) : run the registered checks, one summary line each
cd /verif
ids="$@"
if [ -z "$ids" ]; then ids=$(python3 -c "import json;print(' '.join(c['property_id'] for c in json.load(open('MANIFEST.json'))['checks']))"); fi
for c in $ids; do
  t0=$(date +%s)
  out=$(/venv/bin/python run_check.py $c --tier ${TIER:-quick} 2>&1); rc=$?
  t1=$(date +%s)
  echo "$c rc=$rc $((t1-t0))s $(echo "$out" | grep -E "tier=" | cut -c1-120) $(echo "$out" | grep -c '^VIOLATION') viol $(echo "$out" | grep -c '^KNOWN-FINDING') known"
  if [ $rc -ne 0 ]; then echo "$out" | grep -E "VIOLATION|HARNESS|clause=" | head -6 | cut -c1-300; fi
done
