#!/usr/bin/env python3
"""Regenerate the generated tables of DESIGN.md §7 (between the AUTOGEN markers) from known_findings.json and seeded/*/meta.json."""
import glob, json, os, re
V = '/verif'
kf = json.load(open(V + '/known_findings.json'))['findings']
out = []
out.append("### 7.3 Genuine defects confirmed from generated, shrunk inputs\n")
out.append("Every entry was first reported by a check as a `VIOLATION` on the unchanged tree, judged against the statement and the\n"
           "callers (genuine defect vs. false alarm), then either repaired by one minimal `fix:` commit in /repo (pinned suite re-run:\n"
           "47 passed each time) or recorded as an open known finding. `known_findings.json` is the authoritative list.\n")
out.append("| id | property | status | commit | what failed |\n|---|---|---|---|---|")
for e in kf:
    what = e['what'].replace('|', '\\|')
    what = re.sub(r'^fixed: property=\S+ \S+ ', '', what)
    out.append("| %s | %s | %s | %s | %s |" % (e['id'], e['property'], e['status'], e.get('commit', '—'), what))
out.append("")
out.append("### 7.4 Seeded changes (from independent agents) and which checks catch them\n")
out.append("Each seeded change was produced by a fresh agent that saw only the property text and its own scratch worktree, was\n"
           "re-confirmed here (`tools/seed_verify.sh`: demo passes on the clean tree, fails with the change, pinned suite unchanged)\n"
           "and then run against the quick tier of the property's check (`tools/seed_run.sh`). Patches live in `/verif/seeded/<id>/`.\n"
           "Every patch applies to the current /repo HEAD with `git apply`: where a later repository fix moved a patch's context it\n"
           "was re-created against HEAD *keeping the fix* (`tools/seed_rebase.sh`, conflicts merged by hand) and re-confirmed; the\n"
           "few changes that a later fix neutralises (their demonstration passes once the fix is kept) are marked as such, keep the\n"
           "patch for the base commit named in their meta.json and are not counted as detections or misses.\n")
out.append("| seeded change | detected by (quick tier) | first report |\n|---|---|---|")
for d in sorted(glob.glob(V + '/seeded/*/meta.json')):
    m = json.load(open(d))
    runs = m.get('checks_run') or {}
    det = ", ".join("%s: %s" % (k, "yes" if v['detected'] else "NO") for k, v in sorted(runs.items())) or "not run yet"
    if m.get('obsolete_after_fix'):
        det = "n/a (neutralised by a later fix: see note)"
    if m.get('judged_outside'):
        det = det + " — judged not to break the property as stated (see note)"
    first = "; ".join(v['first'][:110] for k, v in sorted(runs.items()) if v['detected'])[:160].replace('|', '\\|')
    note = m.get('note', '')
    out.append("| %s %s | %s | %s |" % (m['seed_id'], note, det, first))
out.append("")
out.append("### 7.6 Checks as built (from the evidence files of the last quick run on /repo HEAD)\n")
out.append("| property | level | clauses | evaluations | distinct non-trivial | known findings excluded | wall s |\n|---|---|---|---|---|---|---|")
man = json.load(open(V + '/MANIFEST.json'))
for c in man['checks']:
    pid = c['property_id']
    try:
        ev = json.load(open(V + '/evidence/%s.json' % pid))
    except Exception:
        continue
    cov = ev['coverage']
    names = ", ".join(x['clause'] for x in cov.get('clauses', []))
    exk = sum(sum(x.get('excluded_known', {}).values()) for x in cov.get('clauses', []))
    out.append("| %s | %s | %s | %d | %d | %d | %.0f |" % (pid, ev['level'], names, cov['evaluations'], cov['distinct_nontrivial'], exk, ev['wall_s']))
out.append("")
text = "\n".join(out)
p = V + '/DESIGN.md'
s = open(p).read()
b, e = "<!-- AUTOGEN-BEGIN -->", "<!-- AUTOGEN-END -->"
if b not in s:
    s += "\n" + b + "\n" + e + "\n"
s = s[:s.index(b) + len(b)] + "\n" + text + "\n" + s[s.index(e):]
open(p, 'w').write(s)
print("tables regenerated: %d findings, %d seeded" % (len(kf), len(glob.glob(V + '/seeded/*/meta.json'))))
