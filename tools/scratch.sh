#!/bin/bash
# Scratch worktrees of /repo (outside /repo and /verif) to try changes against the checks
# without touching /repo, /verif/.build, /verif/evidence or /verif/replays.
#   tools/scratch.sh new NAME            create /tmp/wt-NAME (worktree) + /tmp/bd-NAME (build cache copy)
#   tools/scratch.sh run NAME <args...>  run_check.py <args> against that worktree (evidence/replays under /tmp/bd-NAME/out)
#   tools/scratch.sh py NAME <args...>   /venv/bin/python with PYTHONPATH pointing at the scratch build (after a sync/build)
#   tools/scratch.sh rm NAME             remove both
set -e
cmd=$1; name=$2; shift 2 || true
WT=/tmp/wt-$name; BD=/tmp/bd-$name
case "$cmd" in
  new)
    git -C /repo worktree add --detach "$WT" HEAD >/dev/null
    mkdir -p "$BD"
    if [ -d /verif/.build/src ]; then cp -a /verif/.build/src "$BD/src"; fi
    echo "$WT"
    ;;
  run)
    cd /verif
    VERIF_REPO=$WT VERIF_BUILD=$BD VERIF_OUT=$BD/out /venv/bin/python run_check.py "$@"
    ;;
  py)
    cd /verif
    VERIF_REPO=$WT VERIF_BUILD=$BD /venv/bin/python -m vf.build >/dev/null
    VERIF_REPO=$WT VERIF_BUILD=$BD VERIF_OUT=$BD/out /venv/bin/python "$@"
    ;;
  rm)
    git -C /repo worktree remove --force "$WT" 2>/dev/null || rm -rf "$WT"
    git -C /repo worktree prune
    rm -rf "$BD"
    ;;
  *) echo "usage: $0 new|run|py|rm NAME [args]"; exit 2;;
esac
