#!/bin/bash
# tools/seed_verify.sh <PROP> <k> <mutants_dir> <orig_worktree_path>
# Independently confirm a seeded change: demo passes on clean tree, fails with the patch, pinned suite unchanged.
# On success copies patch/demo/notes to /verif/seeded/<PROP>-<k>/ and writes meta.json (checks_result filled later).
prop=$1; k=$2; src=$3; orig=$4; sid=${5:-$k}   # sid: number under which the seed is stored (wave 2: k+3)
WT=/tmp/sv-$prop-$sid
cd /verif
git -C /repo worktree remove --force $WT >/dev/null 2>&1; rm -rf $WT $WT-nosuite
git -C /repo worktree add --detach $WT HEAD >/dev/null 2>&1 || { echo "worktree failed"; exit 2; }
# built extensions from the current /repo build cache
/venv/bin/python -m vf.build >/dev/null
(cd /verif/.build/src && find enspara -name "*.so" | while read f; do cp $f $WT/$f; done)
mkdir -p $WT/MUTANTS
for f in $src/*; do
  b=$(basename $f)
  sed "s#$orig#$WT#g" $f > $WT/MUTANTS/$b
done
run_demo() { (cd $WT/MUTANTS && timeout 900 /venv/bin/python demo_$k.py >/tmp/sv-$prop-$sid.$1.log 2>&1); echo $?; }
rc_clean=$(run_demo clean)
if ! git -C $WT apply $src/patch_$k.diff 2>/tmp/sv-$prop-$sid.apply.log; then echo "RESULT $prop-$k PATCH-DOES-NOT-APPLY"; cat /tmp/sv-$prop-$sid.apply.log | head -5; git -C /repo worktree remove --force $WT; exit 1; fi
if grep -q "\.pyx" $src/patch_$k.diff; then
  (cd $WT && find enspara -name "*.so" -delete && /venv/bin/python setup.py build_ext --inplace >/tmp/sv-$prop-$sid.build.log 2>&1) || { echo "RESULT $prop-$k BUILD-FAILED"; }
fi
rc_mut=$(run_demo mutated)
rsync -a --exclude '*.so' --exclude build --exclude MUTANTS $WT/ $WT-nosuite/
suite=$(cd $WT-nosuite && /venv/bin/python -m pytest -ra -q -p no:cacheprovider --timeout=900 --continue-on-collection-errors 2>&1 | tail -1)
rm -rf $WT-nosuite
ok=no
if [ "$rc_clean" = "0" ] && [ "$rc_mut" != "0" ] && echo "$suite" | grep -q "47 passed" && echo "$suite" | grep -q "1 failed" && echo "$suite" | grep -q "20 errors"; then ok=yes; fi
echo "RESULT $prop-$sid confirmed=$ok demo_clean_rc=$rc_clean demo_mutated_rc=$rc_mut suite='$suite'"
if [ $ok = yes ]; then
  d=/verif/seeded/$prop-$sid; mkdir -p $d
  cp $src/patch_$k.diff $d/patch.diff
  cp $src/demo_$k.py $d/demo.py
  [ -f $src/notes_$k.md ] && cp $src/notes_$k.md $d/notes.md
  for extra in $src/_*.py; do [ -f "$extra" ] && cp $extra $d/; done
  tail -3 /tmp/sv-$prop-$sid.mutated.log > $d/demo_output_with_change.txt
  cat > $d/meta.json <<EOF
{"property": "$prop", "seed_id": "$prop-$sid", "origin": "independent sub-agent given only the property text and a scratch worktree ($orig)",
 "confirmed_here": {"demo_rc_on_clean_tree": $rc_clean, "demo_rc_with_change": $rc_mut, "pinned_suite_with_change": "$suite",
  "how": "tools/seed_verify.sh: fresh worktree of /repo HEAD $(git -C /repo rev-parse --short HEAD), extensions copied from the build cache (rebuilt in place when the patch touches a .pyx), demo paths rewritten to that worktree"},
 "needs_to_manifest": "see notes.md", "checks_run": null}
EOF
fi
git -C /repo worktree remove --force $WT >/dev/null 2>&1; rm -rf $WT
