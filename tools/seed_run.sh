#!/bin/bash
# tools/seed_run.sh <seed_id> <Cnn> [...]: run checks against /verif/seeded/<seed_id>/patch.diff, store result in meta.json
id=$1; shift
d=/verif/seeded/$id
res=$(cd /verif && tools/seed_eval.sh sr-$id $d/patch.diff "$@" 2>&1)
echo "$id: $res"
python3 - "$d/meta.json" "$res" <<'PY'
import json,sys
p,res=sys.argv[1],sys.argv[2]
m=json.load(open(p))
runs=m.get("checks_run") or {}
for line in res.splitlines():
    parts=line.split()
    if len(parts)>=3 and parts[0].startswith("C") and parts[1].startswith("rc="):
        runs[parts[0]]={"quick_rc":int(parts[1][3:]),"violations":int(parts[2].split("=")[1]),"first":" ".join(parts[3:])[:200],
                        "detected": parts[1]=="rc=1"}
m["checks_run"]=runs
json.dump(m,open(p,"w"),indent=1)
PY
