#!/usr/bin/env python3
"""Print the prompt for a fresh mutation agent for property <id> (text of the property + its scratch worktree only)."""
import json, sys
pid = sys.argv[1]
wt = "/tmp/m8-%s" % pid.lower()
p = [json.loads(l) for l in open('/verif/properties.jsonl') if json.loads(l)['id'] == pid][0]
import glob
tried = []
for f in sorted(glob.glob('/verif/seeded/%s-*/meta.json' % pid)):
    m = json.load(open(f))
    tried.append("  - %s (needed: %s)" % (m.get('what', '?'), m.get('needs_to_manifest', '?')))
TRIED = "\n".join(tried)
print(f"""You are testing how well a verification effort can detect subtle regressions in the Python/Cython library bowman-lab/enspara (Markov state models of molecular dynamics: clustering, MSM building, TPT, mutual information, ragged arrays).

You have your own scratch git worktree of the repository at {wt} (already created; work ONLY there — never touch /repo, never read or write anything under /verif, and do not look for any existing verification code: your work must be independent).

Here is a semantic property of the library that should always hold:

  id: {p['id']} — {p['title']}
  statement: {p['statement']}
  quantified over: {p['quantifier']['text']}
  code it is anchored in: {', '.join(p['anchors']['files'])}

YOUR TASK: produce ONE realistic change to the library source (each one independent of the others, each a small patch of the kind a well-meaning contributor could plausibly make: a refactor, an optimisation, a 'simplification', an off-by-one, a dropped copy, a wrong axis, a changed comparison, ...) such that, for EACH change:
  1. the library still builds/imports and the repository's existing pinned test-suite still passes exactly as before (see below);
  2. the change BREAKS the property above (for at least some inputs in the property's domain);
  3. the breakage needs something specific to manifest — a particular kind of input (unusual dtype, memory layout, sizes, ties, boundary values, empty/short rows, particular parameter combinations), a multi-step sequence of operations, a particular interleaving/worker count, or two cooperating sites that each look fine alone — NOT something any ordinary first use would expose at once. Prefer changes that ordinary inputs survive.
  4. you provide a small demonstration program demo_<k>.py that exits non-zero (assertion failure) WITH the change and exits 0 WITHOUT it.
Make the two changes different in kind and location (different functions / different clauses of the property).
This is an EIGHTH round for this property. The following changes were already produced in earlier rounds - do NOT repeat them or close variants of them; look for different functions, different clauses of the property and different triggering conditions:
{TRIED}
In this round concentrate on ELEMENT TYPES AND ARITHMETIC: narrow or unsigned integer types (int8/int16/uint8/uint16/uint32 held by the caller's arrays, index arrays, count matrices, label arrays, length vectors), integer overflow or wrap-around in intermediate results, numpy/scipy type promotion (int + float scalars, float32 vs float64, bool arithmetic, integer division, in-place operators that keep the left operand's dtype, `astype` with unsafe casts, `asfptype`, `np.zeros_like`/`empty_like` inheriting a narrow dtype, accumulators in the input's dtype, comparisons between signed and unsigned values, float-to-int truncation vs rounding), and loss of precision that only appears for large magnitudes or long inputs. The change must keep every ordinary int64/float64 use bit-identical and must only bite for other (valid) element types or magnitudes. Every individual output should still look valid on its face (type, shape, ranges). ONE of the two changes must be located in code the property depends on but that is NOT in the anchored files. Avoid changes that make the library raise for ordinary inputs, and avoid changes whose effect is visible on the very first small example one would try.

Practical facts:
- Python: /venv/bin/python (numpy 2.4, scipy, mdtraj, tables, sklearn, threadpoolctl installed). There is no network.
- mpi4py is installed WITHOUT an MPI library; make enspara take its no-MPI path by putting `import sys; sys.modules['mpi4py'] = None` BEFORE importing enspara in your demo programs, and put your worktree first on sys.path: `sys.path.insert(0, '{wt}')`. Check `enspara.__file__` starts with {wt} (site-packages contains a DIFFERENT enspara that must not be tested).
- The Cython extensions (enspara/geometry/libdist.pyx, enspara/info_theory/libinfo.pyx, enspara/msm/libmsm.pyx) are NOT built in a fresh worktree. Build them once with `cd {wt} && /venv/bin/python setup.py build_ext --inplace` (about 1 minute; rebuild after editing a .pyx). enspara.msm, enspara.cluster and enspara.info_theory need them.
- The pinned test-suite: `cd {wt} && /venv/bin/python -m pytest -ra -q -p no:cacheprovider --timeout=900 --continue-on-collection-errors 2>&1 | tail -5` must report exactly "1 failed, 47 passed" plus 20 collection errors both before and after each change when run in a tree WITHOUT built extensions (the 20 errors and the one failure, test_rotamer_assignment, are pre-existing). IMPORTANT: built .so files change which tests are collected, so run the pinned suite in a state without .so files: e.g. do your demo work with the extensions built, and for the suite copy the tree without *.so (`rsync -a --exclude '*.so' --exclude build {wt}/ {wt}-nosuite/`), run the suite there, and delete that copy afterwards.
- Deliverables, in {wt}/MUTANTS/: for k = 1,2: patch_<k>.diff (unified diff against the worktree's HEAD, produced with `git diff` with ONLY that change applied), demo_<k>.py, and notes_<k>.md (what the change is, which sentence of the property it breaks, what is needed for it to manifest, why the existing tests do not notice, and the exact commands you ran with their outcomes). NEVER use `git stash` (the stash is shared by all worktrees of the repository and other agents work in parallel: use `git diff > file; git checkout -- .; git apply file` instead). Leave the worktree's tracked files UNCHANGED at the end (git checkout -- .), keeping only the MUTANTS directory (and built .so files).
- Verify everything yourself before reporting: apply each patch alone to a clean tree, (re)build if needed, run the demo (must fail), run the pinned suite (must be 47 passed / 1 failed / 20 errors), revert, run the demo again (must pass).

Final message: for each of the two changes, a short description, what it needs to manifest, and confirmation of the verification steps.""")
