#!/bin/bash
# tools/seed_eval.sh <name> <patch.diff> <Cnn> [<Cmm> ...]
# Apply a seeded change to a scratch worktree of /repo HEAD, run the quick tier of the given checks against it
# (VERIF_SEED from the environment, default 1), print one line per check, remove the scratch.
name=$1; patch=$2; shift 2
cd /verif
tools/scratch.sh rm "$name" >/dev/null 2>&1
tools/scratch.sh new "$name" >/dev/null 2>&1 || { echo "cannot create scratch"; exit 2; }
if ! git -C /tmp/wt-$name apply "$patch" 2>/tmp/se-$name.err; then
  if ! (cd /tmp/wt-$name && patch -p1 -s < "$patch" 2>>/tmp/se-$name.err); then
    echo "PATCH-FAILED $(head -3 /tmp/se-$name.err)"; tools/scratch.sh rm "$name"; exit 2
  fi
fi
for c in "$@"; do
  out=$(tools/scratch.sh run "$name" "$c" --tier ${TIER:-quick} 2>&1)
  rc=$?
  nv=$(echo "$out" | grep -c "^VIOLATION")
  first=$(echo "$out" | grep -A1 "^VIOLATION" | sed -n 2p | cut -c1-220)
  echo "$c rc=$rc violations=$nv $first"
  if [ $rc -eq 2 ]; then echo "$out" | grep -i "HARNESS" | head -3 | cut -c1-300; fi
done
tools/scratch.sh rm "$name"
